#include <exception>

#include "impl.h"
#include "jobs.h"
#include "manifold/manifold.h"
#include "verif_hooks.h"

namespace vh {

CancelProbe g_probe;

static bool probe_cb(void* ctx, int done, int total) {
  (void)ctx;
  g_probe.checks++;
  if (g_probe.observer) g_probe.observer(done, total);
  if (g_probe.countdown > 0 && g_probe.checks == g_probe.countdown) {
    g_probe.fired = true;
    return true;
  }
  return false;
}

void install_cancel_probe() {
  manifold::verif::hooks.cancelTarget = g_probe.target;
  manifold::verif::hooks.cancelProbe = probe_cb;
}
void remove_cancel_probe() {
  manifold::verif::hooks.cancelProbe = nullptr;
  manifold::verif::hooks.cancelTarget = nullptr;
  g_probe = CancelProbe();
}

SimSetup sim_setup(const Args& a) {
  SimSetup s;
  s.cfg.seed = a.u("seed", 1);
  s.cfg.workers = (int)a.i("W", 1);
  s.cfg.stay = (int)a.i("stay", 50);
  s.cfg.ownBias = (int)a.i("own", 70);
  s.cfg.syncRate = a.d("sync", 0.0);
  s.cfg.hotSite = (int)a.i("hot", 0);
  s.cfg.hotRate = a.d("hotrate", 0.0);
  s.cfg.mode = (int)a.i("mode", 0);
  s.cfg.pctDepth = (int)a.i("pctd", 2);
  s.cfg.pctLen = a.u("pctlen", 2000);
  s.cfg.stepCap = a.u("cap", 50000000ull);
  s.cfg.recordTrace = a.i("trace", 0) != 0;
  s.thresholdDiv = (size_t)a.u("thr", 1);
  s.maxUnionSize = (size_t)a.u("mus", 0);
  std::string sc = a.s("script", "");
  if (!sc.empty() && sc != "-") {
    for (auto& tok : split(sc, ',')) {
      auto p = tok.find(':');
      if (p == std::string::npos) continue;
      s.script.push_back({strtoull(tok.substr(0, p).c_str(), nullptr, 10),
                          (uint32_t)strtoul(tok.substr(p + 1).c_str(), nullptr, 10)});
    }
  }
  return s;
}

namespace {
struct Body {
  const std::function<void()>* f;
  SimOutcome* out;
};
void trampoline(void* p) {
  Body* b = static_cast<Body*>(p);
  try {
    (*b->f)();
  } catch (const std::exception& e) {
    b->out->exception = true;
    b->out->what = e.what();
  } catch (...) {
    b->out->exception = true;
    b->out->what = "unknown exception";
  }
}
void sync_cb(int site) { sim::sync_point(site); }
}  // namespace

SimOutcome run_simulated(const SimSetup& s, const std::function<void()>& body) {
  SimOutcome out;
  manifold::Manifold::Impl::meshIDCounter_ = 1;
  manifold::Quality::ResetToDefaults();
  manifold::verif::ResetCaches();  // hook H4: no state carried over from earlier runs in this process
  manifold::verif::hooks.thresholdDiv = s.thresholdDiv;
  manifold::verif::hooks.maxUnionSize = s.maxUnionSize;  // hook H5
  manifold::verif::hooks.syncPoint = sync_cb;
  sim::Config cfg = s.cfg;
  cfg.script = s.script.empty() ? nullptr : s.script.data();
  cfg.scriptLen = s.script.size();
  Body b{&body, &out};
  out.st = sim::run(cfg, trampoline, &b);
  manifold::verif::hooks.syncPoint = nullptr;
  manifold::verif::hooks.thresholdDiv = 1;
  manifold::verif::hooks.maxUnionSize = 0;
  if (cfg.recordTrace) {
    size_t len;
    bool trunc;
    const sim::TraceEntry* t = sim::trace(&len, &trunc);
    out.traceTruncated = trunc;
    size_t count = 0;
    for (size_t i = 0; i < len; i++)
      if (t[i].chosen != t[i].dflt) count++;
    if (count > 300000) {
      out.traceTruncated = true;
    } else {
      std::string d;
      for (size_t i = 0; i < len; i++)
        if (t[i].chosen != t[i].dflt) {
          if (!d.empty()) d += ",";
          d += std::to_string(i) + ":" + std::to_string((int)t[i].chosen);
        }
      out.deviations = d;
    }
  }
  return out;
}

std::string outcome_json(const SimOutcome& o) {
  JObj j;
  j.u64("steps", o.st.steps).u64("switches", o.st.switches).u64("steals", o.st.steals);
  j.u64("tasks", o.st.tasks).u64("spawns", o.st.spawns);
  j.u64("sync_points", o.st.syncPoints).u64("sync_yields", o.st.syncYields);
  j.u64("mutex_blocks", o.st.mutexBlocks).u64("nondefault", o.st.nondefault);
  {
    JArr sites;
    for (int i = 0; i < 12; i++) sites.i64((int64_t)o.st.syncBySite[i]);
    j.raw("sync_by_site", sites.done());
  }
  j.str("hash", hex(o.st.hash));
  j.boolean("step_cap_hit", o.st.stepCapHit).i64("threads", o.st.maxThreads);
  j.boolean("exception", o.exception);
  if (o.exception) j.str("what", o.what);
  if (!o.deviations.empty() || o.traceTruncated) {
    j.str("deviations", o.deviations);
    j.boolean("trace_truncated", o.traceTruncated);
  }
  return j.done();
}

void register_prog();
void register_c05defer();
void register_c13();
void register_c14();
void register_c15();
void register_c09();
void register_c06();
void register_c03();

void register_all_jobs() {
  register_prog();
  register_c05defer();
  register_c13();
  register_c14();
  register_c15();
  register_c09();
  register_c06();
  register_c03();
}

}  // namespace vh
