// C14 (schedule-dependent half): the BVH's internal boxes are produced by a
// lock-free bottom-up pass (first arrival leaves, second computes the union)
// and queries record through a shared recorder. Under simulated schedules the
// recorded (query, leaf) multiset must equal the all-pairs closed-interval
// scan, each pair once, also after UpdateBoxes and an axis-aligned Transform;
// same for the 2D edge-pair BVH.
#include <algorithm>
#include <map>
#include <mutex>
#include <set>
#include <vector>

#define private public
#include "collider.h"
#undef private
#include "boolean2.h"
#include "jobs.h"

namespace vh {
namespace {
using namespace manifold;

template <class T>
Vec<T> toVec(const std::vector<T>& v) {
  Vec<T> out(v.size());
  for (size_t i = 0; i < v.size(); i++) out[i] = v[i];
  return out;
}

struct LeafSet {
  std::vector<Box> boxes;
  std::vector<uint32_t> morton;
};

Box rnd_box(Rng& r, int lattice, int mode) {
  auto c = [&]() { return (double)r.below(lattice); };
  vec3 a(c(), c(), c());
  vec3 size(0.0);
  switch (mode) {
    case 0: size = vec3(r.below(3), r.below(3), r.below(3)); break;         // small, often degenerate
    case 1: size = vec3(r.uni(0, 2), r.uni(0, 2), r.uni(0, 2)); break;      // generic
    case 2: size = vec3(0.0); break;                                           // points
    default: size = vec3(1.0); break;
  }
  return Box(a, a + size);
}

LeafSet make_leaves(Rng& r, int n, int kind) {
  LeafSet ls;
  const int lattice = kind == 3 ? 1 : (kind == 2 ? 2 : 8);
  for (int i = 0; i < n; i++) ls.boxes.push_back(rnd_box(r, lattice, kind == 4 ? 2 : (kind % 2)));
  if (kind == 5)
    for (int i = 1; i < n; i++) ls.boxes[i] = ls.boxes[0];  // identical boxes
  Box all;
  all.min = vec3(std::numeric_limits<double>::infinity());
  all.max = vec3(-std::numeric_limits<double>::infinity());
  for (auto& b : ls.boxes) all = all.Union(b);
  if (kind == 6) {  // degenerate bounding box in z
    for (auto& b : ls.boxes) b.min.z = b.max.z = 1.0;
    all.min.z = all.max.z = 1.0;
  }
  std::vector<std::pair<uint32_t, int>> order;
  for (int i = 0; i < n; i++) {
    vec3 center = 0.5 * (ls.boxes[i].min + ls.boxes[i].max);
    uint32_t code;
    vec3 ext = all.max - all.min;
    if (ext.x > 0 && ext.y > 0 && ext.z > 0)
      code = Collider::MortonCode(center, all);
    else
      code = (kind == 6) ? (uint32_t)(i % 3) : 0u;  // the library's own degenerate-bbox codes are not the subject here
    if (kind == 7) code = 5;                        // all codes identical
    order.push_back({code, i});
  }
  std::stable_sort(order.begin(), order.end(), [](auto& a, auto& b) { return a.first < b.first; });
  LeafSet out;
  for (auto& o : order) {
    out.boxes.push_back(ls.boxes[o.second]);
    out.morton.push_back(o.first);
  }
  return out;
}

using Pairs = std::vector<std::pair<int, int>>;

std::string compare_pairs(Pairs got, Pairs want, const char* what) {
  std::sort(got.begin(), got.end());
  std::sort(want.begin(), want.end());
  if (got == want) return "";
  for (size_t i = 1; i < got.size(); i++)
    if (got[i] == got[i - 1]) return std::string(what) + ":pair_reported_twice";
  std::set<std::pair<int, int>> g(got.begin(), got.end()), w(want.begin(), want.end());
  for (auto& p : w)
    if (!g.count(p)) return std::string(what) + ":missed_pair";
  return std::string(what) + ":spurious_pair";
}

std::string internal_boxes_ok(const Collider& c) {
  // every internal node's box equals the union of its children's boxes (hence of its subtree's leaves)
  for (size_t i = 0; i < c.internalChildren_.size(); i++) {
    int node = 2 * (int)i + 1;
    Box u = c.nodeBBox_[c.internalChildren_[i].first].Union(c.nodeBBox_[c.internalChildren_[i].second]);
    const Box& b = c.nodeBBox_[node];
    if (!(u.min == b.min) || !(u.max == b.max)) return "internal_box_not_union_of_children";
  }
  // tree covers each leaf exactly once
  std::vector<int> seen(c.NumLeaves(), 0);
  std::vector<int> stack{1};
  size_t guard = 0;
  while (!stack.empty() && guard++ < 4 * c.nodeBBox_.size() + 4) {
    int node = stack.back();
    stack.pop_back();
    if (node % 2 == 0) {
      seen[node / 2]++;
      continue;
    }
    auto ch = c.internalChildren_[(node - 1) / 2];
    stack.push_back(ch.first);
    stack.push_back(ch.second);
  }
  for (int s : seen)
    if (s != 1) return "tree_does_not_cover_each_leaf_once";
  return "";
}

std::string run_case(const Args& a) {
  Rng r(a.u("dseed", 1));
  const int n = (int)a.i("n", 16), kind = (int)a.i("kind", 0), nq = (int)a.i("queries", 32);
  LeafSet ls = make_leaves(r, n, kind);
  Vec<Box> leafBB = toVec(ls.boxes);
  Vec<uint32_t> leafMorton = toVec(ls.morton);
  Collider col(leafBB, leafMorton);
  std::string d = internal_boxes_ok(col);
  if (!d.empty()) return "build:" + d;

  auto query_boxes = [&](const std::vector<Box>& boxes, const std::vector<Box>& leaves, const char* what) -> std::string {
    Vec<Box> q = toVec(boxes);
    Pairs got;
    std::mutex mu;
    auto f = [&](int qi, int li) {
      std::lock_guard<std::mutex> lock(mu);
      got.push_back({qi, li});
    };
    auto rec = MakeSimpleRecorder(f);
    col.Collisions<false, Box>(rec, q.cview(), true);
    Pairs want;
    for (size_t i = 0; i < boxes.size(); i++) {
      if (boxes[i].min.x == std::numeric_limits<double>::infinity()) continue;
      for (size_t k = 0; k < leaves.size(); k++)
        if (leaves[k].DoesOverlap(boxes[i])) want.push_back({(int)i, (int)k});
    }
    return compare_pairs(got, want, what);
  };
  std::vector<Box> queries;
  for (int i = 0; i < nq; i++) queries.push_back(rnd_box(r, 9, i % 3));
  {
    // unbounded query boxes: slabs, half-spaces, everything; and the canonical empty box (skipped by the library)
    const double inf = std::numeric_limits<double>::infinity();
    Box slab(vec3(-inf, -inf, 2.0), vec3(inf, inf, 3.0));
    Box half(vec3(3.5, -inf, -inf), vec3(inf, inf, inf));
    Box all(vec3(-inf), vec3(inf));
    Box ray(vec3(1.0, 1.0, -inf), vec3(1.0, 1.0, inf));
    queries.push_back(slab);
    queries.push_back(half);
    queries.push_back(all);
    queries.push_back(ray);
    queries.push_back(Box());
  }
  d = query_boxes(queries, ls.boxes, "box_query");
  if (!d.empty()) return d;
  // self collision (query i skips leaf i)
  {
    Pairs got;
    std::mutex mu;
    auto f = [&](int qi, int li) {
      std::lock_guard<std::mutex> lock(mu);
      got.push_back({qi, li});
    };
    auto rec = MakeSimpleRecorder(f);
    col.Collisions<true, Box>(rec, leafBB.cview(), true);
    Pairs want;
    for (int i = 0; i < n; i++)
      for (int k = 0; k < n; k++)
        if (i != k && ls.boxes[k].DoesOverlap(ls.boxes[i])) want.push_back({i, k});
    d = compare_pairs(got, want, "self_query");
    if (!d.empty()) return d;
  }
  // point queries (projected in z)
  {
    std::vector<vec3> pts;
    for (int i = 0; i < nq; i++) pts.push_back(vec3(r.below(9), r.below(9), r.below(9)) + (i % 2 ? vec3(0.5) : vec3(0.0)));
    Vec<vec3> q = toVec(pts);
    Pairs got;
    std::mutex mu;
    auto f = [&](int qi, int li) {
      std::lock_guard<std::mutex> lock(mu);
      got.push_back({qi, li});
    };
    auto rec = MakeSimpleRecorder(f);
    col.Collisions<false, vec3>(rec, q.cview(), true);
    Pairs want;
    for (size_t i = 0; i < pts.size(); i++)
      for (int k = 0; k < n; k++)
        if (ls.boxes[k].DoesOverlap(pts[i])) want.push_back({(int)i, k});
    d = compare_pairs(got, want, "point_query");
    if (!d.empty()) return d;
  }
  // UpdateBoxes with new boxes (same order / tree), then queries
  std::vector<Box> moved = ls.boxes;
  for (auto& b : moved) {
    vec3 sh(r.below(3), r.below(3), r.below(3));
    b = Box(b.min + sh, b.max + sh + vec3((double)r.below(2)));
  }
  {
    Vec<Box> nb = toVec(moved);
    col.UpdateBoxes(nb);
    d = internal_boxes_ok(col);
    if (!d.empty()) return "update:" + d;
    d = query_boxes(queries, moved, "box_query_after_update");
    if (!d.empty()) return d;
  }
  // axis-aligned transform (permutation + scale + translation)
  {
    mat3x4 t(vec3(0, 2, 0), vec3(-1, 0, 0), vec3(0, 0, 3), vec3(1, -2, 0.5));
    col.Transform(t);
    std::vector<Box> tb;
    for (auto& b : moved) tb.push_back(b.Transform(t));
    d = query_boxes(queries, tb, "box_query_after_transform");
    if (!d.empty()) return d;
  }
  // 2D edge-pair BVH
  {
    std::vector<Box2> b2;
    for (int i = 0; i < n; i++) {
      vec2 a2(r.below(8), r.below(8));
      vec2 s2 = (kind % 2) ? vec2(r.uni(0, 2), r.uni(0, 2)) : vec2(r.below(3), r.below(3));
      b2.push_back(Box2(a2, a2 + s2));
    }
    if (kind == 5)
      for (int i = 1; i < n; i++) b2[i] = b2[0];
    BVH bvh = BVHBuildFromBoxes(b2);
    if (!bvh.Empty()) {
      if ((int)bvh.leafToOrig.size() != n) return "bvh2d:leaf_count";
      Pairs got;
      std::mutex mu;
      auto f = [&](int qi, int li) {
        std::lock_guard<std::mutex> lock(mu);
        got.push_back({qi, bvh.leafToOrig[li]});
      };
      auto rec = MakeSimpleRecorder(f);
      auto qf = [&](int i) { return b2[i]; };
      BVHCollisions(bvh, rec, qf, n, true);
      Pairs want;
      for (int i = 0; i < n; i++)
        for (int k = 0; k < n; k++)
          if (b2[k].DoesOverlap(b2[i])) want.push_back({i, k});
      d = compare_pairs(got, want, "bvh2d_query");
      if (!d.empty()) return d;
    } else if (n >= 2) {
      return "bvh2d:empty_for_n>=2";
    }
    // the production entry point (PAR builds: thread-local pair recorders combined and radix-sorted)
    {
      std::vector<vec2> verts;
      std::vector<EdgeM> edges;
      std::vector<Box2> eb;
      for (int i = 0; i < n; i++) {
        // even kinds: endpoints on a small integer lattice, so that boxes abut exactly (max.x of one == min.x of
        // another), edges are vertical or horizontal, and boxes coincide; odd kinds: generic coordinates
        const bool lat = kind % 2 == 0;
        vec2 p0 = lat ? vec2(r.below(8), r.below(8)) : vec2(r.below(40) + 0.25 * (i % 3), r.below(40));
        vec2 p1 = lat ? p0 + vec2(r.below(3), (double)r.below(5) - 2) : p0 + vec2(r.uni(0.1, 3), r.uni(-3, 3));
        verts.push_back(p0);
        verts.push_back(p1);
        edges.push_back({2 * i, 2 * i + 1, 1});
        eb.push_back(Box2(p0, p1));
      }
      for (int pass = 0; pass < 2; pass++) {
        BVH b3 = pass == 0 ? BVHBuildFromBoxes(eb) : BVH();
        std::vector<std::pair<int, int>> pairs;
        CollectIntersectionPairs(edges, verts, 1e-9, eb, b3, pairs);
        Pairs want;
        for (int i = 0; i < n; i++)
          for (int k = i + 1; k < n; k++)
            if (eb[k].DoesOverlap(eb[i])) want.push_back({i, k});
        Pairs got(pairs.begin(), pairs.end());
        if (!std::is_sorted(got.begin(), got.end())) return std::string(pass == 0 ? "edge_pairs_bvh" : "edge_pairs_sweep") + ":not_sorted";
        d = compare_pairs(got, want, pass == 0 ? "edge_pairs_bvh" : "edge_pairs_sweep");
        if (!d.empty()) return d;
      }
    }
  }
  return "";
}

std::string job_c14(const Args& a) {
  SimSetup s = sim_setup(a);
  std::string mism;
  SimOutcome out = run_simulated(s, [&]() { mism = run_case(a); });
  JObj j;
  j.str("mismatch", mism).raw("sim", outcome_json(out));
  return j.done();
}

}  // namespace

void register_c14() { registry()["c14"] = job_c14; }

}  // namespace vh
