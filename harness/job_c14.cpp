#include "jobs.h"
namespace vh {
void register_c14() {}
}  // namespace vh
