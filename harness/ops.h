// Program interpreter: explicit, replayable op lists over a pool of Manifolds
// (M) and CrossSections (X). Programs are text: ops separated by ';', each
// "name:arg,arg,...", integer arguments only. Operand indices are taken modulo
// the current pool size, numeric parameters are mapped from integers by fixed
// formulas, so any sub-list of a program is again a valid program (shrinking).
#pragma once
#include <algorithm>
#include <array>
#include <functional>
#include <map>
#include <sstream>
#include <string>
#include <vector>

#include "manifold/cross_section.h"
#include "manifold/manifold.h"
#include "util.h"

namespace vh {
using namespace manifold;

struct Op {
  std::string name;
  std::vector<int64_t> a;
  int64_t arg(size_t i, int64_t d = 0) const { return i < a.size() ? a[i] : d; }
  std::string text() const {
    std::string s = name;
    for (size_t i = 0; i < a.size(); i++) s += (i ? "," : ":") + std::to_string(a[i]);
    return s;
  }
};

inline std::vector<Op> parse_program(const std::string& text) {
  std::vector<Op> ops;
  for (auto& tok : split(text, ';')) {
    if (tok.empty()) continue;
    Op op;
    auto p = tok.find(':');
    op.name = tok.substr(0, p);
    if (p != std::string::npos)
      for (auto& a : split(tok.substr(p + 1), ','))
        if (!a.empty()) op.a.push_back(strtoll(a.c_str(), nullptr, 10));
    ops.push_back(op);
  }
  return ops;
}

// integer -> [lo,hi], 1000 steps
inline double U(int64_t a, double lo, double hi) {
  int64_t k = ((a % 1000) + 1000) % 1000;
  return lo + (hi - lo) * (double)k / 999.0;
}

struct Produced {
  bool isX;
  size_t idx;
};

struct Env {
  std::vector<Manifold> M;
  std::vector<CrossSection> X;
  size_t capM = 12, capX = 8;
  ExecutionContext* ctx = nullptr;  // used by the *ctx ops
  bool eagerTemps = false;          // "nest" evaluates its temporaries one by one (eager reference build)
  std::vector<Produced> produced;   // filled by exec()
  std::string note;                 // e.g. "skipped"
  // Called just before an element is removed/overwritten so models can follow.
  std::function<void(bool isX, size_t idx)> onErase;
  std::function<void(bool isX, size_t dst, size_t src)> onAssign;

  // object identities (for taint tracking by the driver)
  std::vector<uint64_t> idM, idX;
  uint64_t nextId = 1;
  mutable std::vector<uint64_t> used;

  size_t mi(int64_t i) const { return (size_t)(((i % (int64_t)M.size()) + M.size()) % M.size()); }
  size_t xi(int64_t i) const { return (size_t)(((i % (int64_t)X.size()) + X.size()) % X.size()); }
  const Manifold& m(int64_t i) const {
    used.push_back(idM[mi(i)]);
    return M[mi(i)];
  }
  const CrossSection& x(int64_t i) const {
    used.push_back(idX[xi(i)]);
    return X[xi(i)];
  }

  void pushM(Manifold v) {
    M.push_back(std::move(v));
    idM.push_back(nextId++);
    produced.push_back({false, M.size() - 1});
  }
  void pushX(CrossSection v) {
    X.push_back(std::move(v));
    idX.push_back(nextId++);
    produced.push_back({true, X.size() - 1});
  }
  void eraseM(size_t k) {
    if (onErase) onErase(false, k);
    M.erase(M.begin() + k);
    idM.erase(idM.begin() + k);
  }
  void eraseX(size_t k) {
    if (onErase) onErase(true, k);
    X.erase(X.begin() + k);
    idX.erase(idX.begin() + k);
  }
  // Evict after a step (keeps `produced` indices valid during the step).
  void evict(int64_t salt) {
    while (M.size() > capM) {
      size_t k = (size_t)((salt < 0 ? -salt : salt) % (int64_t)M.size());
      eraseM(k);
    }
    while (X.size() > capX) {
      size_t k = (size_t)((salt < 0 ? -salt : salt) % (int64_t)X.size());
      eraseX(k);
    }
  }
};

inline OpType optype(int64_t k) {
  switch (((k % 3) + 3) % 3) {
    case 0: return OpType::Add;
    case 1: return OpType::Subtract;
    default: return OpType::Intersect;
  }
}

inline Polygons star_polys(int64_t seed, int64_t n, int64_t kind) {
  Rng r((uint64_t)seed * 7919 + 13);
  Polygons out;
  int nv = 3 + (int)(((n % 40) + 40) % 40);
  SimplePolygon p;
  for (int i = 0; i < nv; i++) {
    double ang = 2 * 3.14159265358979323846 * i / nv;
    double rad = (kind % 3 == 0) ? 1.0 : r.uni(0.35, 1.0);
    if (kind % 3 == 2) ang += r.uni(-0.6, 0.6);  // may self-intersect
    p.push_back(vec2(rad * std::cos(ang), rad * std::sin(ang)));
  }
  out.push_back(p);
  if (kind % 2 == 1) {
    SimplePolygon h;
    for (int i = 0; i < 5; i++) {
      double ang = -2 * 3.14159265358979323846 * i / 5;
      h.push_back(vec2(0.15 * std::cos(ang), 0.15 * std::sin(ang)));
    }
    out.push_back(h);
  }
  return out;
}

inline std::function<double(vec3)> sdf_kind(int64_t kind, int64_t k) {
  const double kk = U(k, 3, 8);
  switch (((kind % 3) + 3) % 3) {
    case 0:
      return [kk](vec3 p) { return 0.8 - la::length(p) + 0.05 * std::sin(kk * p.x); };
    case 1:
      return [kk](vec3 p) {
        return 0.25 - std::abs(std::cos(kk * p.x) * std::sin(kk * p.y) + std::cos(kk * p.y) * std::sin(kk * p.z) +
                               std::cos(kk * p.z) * std::sin(kk * p.x)) -
               0.15 * (la::length(p) > 0.9 ? 10 * (la::length(p) - 0.9) : 0);
      };
    default:
      return [kk](vec3 p) {
        double a = 0.5 - la::length(p - vec3(0.3, 0, 0)), b = 0.45 - la::length(p + vec3(0.3, 0.1, 0));
        return std::max(a, b) + 0.01 * kk * 0;
      };
  }
}

// Meshes with duplicated edges and opposed triangles, imported through
// Manifold(MeshGL64): kind 0 = row of M unit cells sharing corner vertices, the
// wall between neighbouring boxes of K cells present twice with opposite
// orientation; kind 1 = staircase of M boxes touching along an edge with merged
// vertices (every shared edge used by four triangles); kind 2 = chain of M boxes touching at one
// corner with the shared vertex merged (pinched vertices in the input).
inline MeshGL64 cell_mesh(int M, int K, int kind, int64_t shuffle = 0) {
  MeshGL64 g;
  g.numProp = 3;
  std::map<std::array<int, 3>, uint64_t> index;
  auto V = [&](int i, int j, int k) {
    std::array<int, 3> key{i, j, k};
    auto it = index.find(key);
    if (it != index.end()) return it->second;
    uint64_t id = g.vertProperties.size() / 3;
    g.vertProperties.push_back(i);
    g.vertProperties.push_back(j);
    g.vertProperties.push_back(k);
    index[key] = id;
    return id;
  };
  auto quad = [&](uint64_t a, uint64_t b, uint64_t c, uint64_t d) {
    for (uint64_t v : {a, b, c, a, c, d}) g.triVerts.push_back(v);
  };
  auto box = [&](int x0, int y0, int z0, bool left, bool right) {
    const int x1 = x0 + 1, y1 = y0 + 1, z1 = z0 + 1;
    if (right) quad(V(x1, y0, z0), V(x1, y1, z0), V(x1, y1, z1), V(x1, y0, z1));
    if (left) quad(V(x0, y0, z0), V(x0, y0, z1), V(x0, y1, z1), V(x0, y1, z0));
    quad(V(x0, y1, z0), V(x0, y1, z1), V(x1, y1, z1), V(x1, y1, z0));
    quad(V(x0, y0, z0), V(x1, y0, z0), V(x1, y0, z1), V(x0, y0, z1));
    quad(V(x0, y0, z1), V(x1, y0, z1), V(x1, y1, z1), V(x0, y1, z1));
    quad(V(x0, y0, z0), V(x0, y1, z0), V(x1, y1, z0), V(x1, y0, z0));
  };
  if (K < 1) K = 1;
  for (int c = 0; c < M; ++c) {
    switch (((kind % 3) + 3) % 3) {
      case 0: box(c, 0, 0, c % K == 0, (c + 1) % K == 0 || c + 1 == M); break;  // doubled walls
      case 1: box(c, c, 0, true, true); break;                                   // touching along an edge
      default: box(c, c, c, true, true); break;                                  // touching at one corner: pinched vertices
    }
  }
  if (shuffle % 4 != 0) {
    // the triangle order of the input decides where the members of a group of duplicated halfedges
    // sit relative to each other: 1 = reversed, 2 = seeded shuffle, 3 = all walls first
    const size_t nt = g.triVerts.size() / 3;
    std::vector<size_t> order(nt);
    for (size_t i = 0; i < nt; i++) order[i] = i;
    if (shuffle % 4 == 1) {
      std::reverse(order.begin(), order.end());
    } else if (shuffle % 4 == 2) {
      Rng r((uint64_t)shuffle * 977 + 5);
      for (size_t i = nt; i > 1; i--) std::swap(order[i - 1], order[r.below((uint32_t)i)]);
    } else {
      std::stable_partition(order.begin(), order.end(), [&](size_t t) { return (t / 2) % 6 < 2; });
    }
    std::vector<uint64_t> tv;
    for (size_t t : order)
      for (int k = 0; k < 3; k++) tv.push_back(g.triVerts[3 * t + k]);
    g.triVerts = tv;
  }
  return g;
}

inline void set_props(double* n, vec3 p, const double* old, int num, int kind, int numOld) {
  for (int i = 0; i < num; i++) {
    switch ((kind + i) % 4) {
      case 0: n[i] = p.x + 2 * p.y; break;
      case 1: n[i] = p.y * p.z; break;
      case 2: n[i] = 1.0 + i; break;
      default: n[i] = (numOld > 0 ? old[0] : 0.5) + p.z; break;
    }
  }
}

// Executes one op. Returns false if the op name is unknown.
inline bool exec(Env& e, const Op& op) {
  e.produced.clear();
  e.note.clear();
  e.used.clear();
  const std::string& n = op.name;
  auto A = [&](size_t i, int64_t d = 0) { return op.arg(i, d); };
  const bool haveM = !e.M.empty(), haveX = !e.X.empty();
  auto needM = [&]() {
    if (!haveM) e.note = "skipped:noM";
    return haveM;
  };
  auto needX = [&]() {
    if (!haveX) e.note = "skipped:noX";
    return haveX;
  };
  // ---------------- constructors
  if (n == "cube") {
    e.pushM(Manifold::Cube(vec3(U(A(0), .3, 1.2), U(A(1), .3, 1.2), U(A(2), .3, 1.2)), A(3) % 2));
  } else if (n == "lbox") {
    e.pushM(Manifold::Cube(vec3(1 + (A(3) % 3 + 3) % 3, 1 + (A(4) % 3 + 3) % 3, 1 + (A(5) % 3 + 3) % 3))
                .Translate(vec3((A(0) % 4 + 4) % 4, (A(1) % 4 + 4) % 4, (A(2) % 4 + 4) % 4)));
  } else if (n == "sphere") {
    int seg = 4 * (1 + (int)(((A(1) % 128) + 128) % 128));
    e.pushM(Manifold::Sphere(U(A(0), .3, .9), seg));
  } else if (n == "cyl") {
    e.pushM(Manifold::Cylinder(U(A(0), .3, 1.2), U(A(1), .2, .6), U(A(2), .1, .6), 3 + (int)((A(3) % 400 + 400) % 400),
                               A(4) % 2));
  } else if (n == "ctor") {
    // the constructors' parameter grid: shape of the 2D input x divisions x twist x top scale / revolve
    // angle and axis contact / cylinder cone and segment count
    const int shape = (int)((A(0) % 4 + 4) % 4), mode = (int)((A(1) % 6 + 6) % 6), q = (int)((A(2) % 1000 + 1000) % 1000);
    const double r = .4 + .001 * (q % 400);
    const int seg = 3 + q % 13;
    CrossSection ring = CrossSection::Circle(r, seg) - CrossSection::Circle(r * .5, 3 + seg / 2);
    CrossSection isle = CrossSection::Square(vec2(r, r * .7), true).Translate(vec2(2.5 * r, .1));
    CrossSection x = shape == 0 ? CrossSection::Circle(r, seg) : (shape == 1 ? ring : (shape == 2 ? CrossSection::Circle(r, seg) + isle : ring + isle));
    const double top[3] = {0.0, 0.5, 1.0};
    if (mode < 3) {
      e.pushM(Manifold::Extrude(x.ToPolygons(), .3 + r, q % 4, (q % 3 == 0) ? 0.0 : 10.0 + q % 80, vec2(top[mode])));
    } else if (mode == 3) {
      e.pushM(Manifold::Extrude(x.ToPolygons(), .3 + r, q % 3, 0.0, vec2(q % 2 ? 0.0 : 1.0, q % 2 ? 1.0 : 0.0)));  // wedge: one axis collapses
    } else if (mode == 4 && A(0) % 5 == 4) {
      // a contour with several consecutive vertices on the axis
      Polygons raw = {{{0, 0}, {r, 0}, {r, 2 * r}, {0, 2 * r}, {0, 1.5 * r}, {0, r}, {0, .5 * r}}};
      if (q % 2) raw[0].resize(5);
      e.pushM(Manifold::Revolve(raw, 3 + q % 20, q % 3 ? 360.0 : 30.0 + q % 300));
    } else if (mode == 4) {
      e.pushM(Manifold::Revolve(x.Translate(vec2((q % 3) * r, 0)).ToPolygons(), 3 + q % 20, q % 2 ? 360.0 : 30.0 + q % 300));
    } else {
      e.pushM(Manifold::Cylinder(.3 + r, r, (q % 3 == 0) ? 0.0 : ((q % 3 == 1) ? -1.0 : r * .5), q % 2 ? 0 : seg, q % 5 == 0));
    }
  } else if (n == "tet") {
    e.pushM(Manifold::Tetrahedron());
  } else if (n == "levelset") {
    double edge = U(A(1), .04, .25);
    e.pushM(Manifold::LevelSet(sdf_kind(A(2), A(0)), Box(vec3(-1), vec3(1)), edge, 0, -1, A(3, 1) % 2));
  } else if (n == "extrude") {
    if (needX())
      // every third extrusion is a cone (scaleTop 0,0: one apex vertex per contour instead of a top ring)
      e.pushM(Manifold::Extrude(e.x(A(0)).ToPolygons(), U(A(1), .2, 1), (int)((A(2) % 4 + 4) % 4), U(A(3), 0, 60) * (A(3) % 2),
                                A(4, 999) % 3 == 0 ? vec2(0.0) : vec2(U(A(4, 999), .3, 1))));
  } else if (n == "revolve") {
    if (needX())
      e.pushM(Manifold::Revolve(e.x(A(0)).Translate(vec2(U(A(3), 0, 1.5), 0)).ToPolygons(), 3 + (int)((A(1) % 40 + 40) % 40),
                                A(2) % 3 == 0 ? 360.0 : U(A(2), 30, 360)));
  } else if (n == "cellrow") {
    int M = 1 + (int)(((A(0) % 60000) + 60000) % 60000), K = 1 + (int)(((A(1) % 32) + 32) % 32);
    e.pushM(Manifold(cell_mesh(M, K, (int)(A(2) % 3), A(3))));
  } else if (n == "hullpts") {
    Rng r((uint64_t)A(1) * 31 + 7);
    std::vector<vec3> pts;
    int np = 4 + (int)((A(0) % 60 + 60) % 60);
    for (int i = 0; i < np; i++) {
      vec3 p(r.uni(-1, 1), r.uni(-1, 1), r.uni(-1, 1));
      if (A(2) % 3 == 1) p = vec3(std::round(p.x * 2), std::round(p.y * 2), std::round(p.z * 2));
      if (A(2) % 3 == 2 && i % 3 == 0 && !pts.empty()) p = pts[r.below(pts.size())];
      pts.push_back(p);
    }
    e.pushM(Manifold::Hull(pts));
  }
  // ---------------- transforms
  else if (n == "rot") {
    if (needM()) e.pushM(e.m(A(0)).Rotate(U(A(1), 0, 360), U(A(2), 0, 360), U(A(3), 0, 360)));
  } else if (n == "rot90") {
    if (needM()) e.pushM(e.m(A(0)).Rotate(90.0 * (A(1) % 4), 90.0 * (A(2) % 4), 90.0 * (A(3) % 4)));
  } else if (n == "trans") {
    if (needM()) e.pushM(e.m(A(0)).Translate(vec3(U(A(1), -.6, .6), U(A(2), -.6, .6), U(A(3), -.6, .6))));
  } else if (n == "ltrans") {
    if (needM()) e.pushM(e.m(A(0)).Translate(vec3((double)(A(1) % 3), (double)(A(2) % 3), (double)(A(3) % 3))));
  } else if (n == "scale") {
    if (needM()) e.pushM(e.m(A(0)).Scale(vec3(U(A(1), .5, 1.5), U(A(2), .5, 1.5), U(A(3), .5, 1.5))));
  } else if (n == "hugescale" || n == "rawhuge") {
    // a finite transform whose result overflows: the library empties the result (Impl::Transform -> MakeEmpty)
    if (needM()) {
      const int k = (int)((A(1) % 3 + 3) % 3);
      // k == 0: finite matrix, x' = 1e308 * (x + y + z + 1): overflows for almost every vertex
      Manifold r = k == 0 ? e.m(A(0)).Transform(mat3x4(vec3(1e308, 0, 0), vec3(1e308, 1, 0), vec3(1e308, 0, 1), vec3(1e308, 0, 0)))
                          : e.m(A(0)).Scale(k == 1 ? vec3(1e200, 1e200, 1) : vec3(-1.7e308, 1.7e308, 1.7e308));
      // A result that stayed finite (coordinates up to 1e308) is not kept by "hugescale": arithmetic on such
      // coordinates overflows inside Booleans and Slice (recorded as a known finding of C09, which probes it
      // with "rawhuge"); the generated programs are about the overflow -> MakeEmpty path.
      if (n == "rawhuge" || r.IsEmpty())
        e.pushM(r);
      else
        e.note = "huge_finite_discarded";
    }
  } else if (n == "scratch") {
    // an expression over pool objects that is built and destroyed without ever being evaluated
    if (needM()) {
      const Manifold& a = e.m(A(0));
      const Manifold& b = e.m(A(1));
      const vec3 v(U(A(3), -.5, .5), U(A(4), -.5, .5), U(A(5), -.5, .5));
      const int k = (int)((A(2) % 6 + 6) % 6);
      {
        // the transformed operand is a true temporary: only the expression node refers to it afterwards
        auto xf = [&]() { return k < 3 ? a.Translate(v) : a.Rotate(U(A(3), 0, 90), U(A(4), 0, 90), 0); };
        Manifold u = (k % 3 == 0) ? (xf() + b) : ((k % 3 == 1) ? (xf() - b) : (xf() ^ b));
        if (A(5) % 2) u = u.Translate(v) + a;
      }
      e.note = "scratch";
    }
  } else if (n == "mirror") {
    if (needM()) e.pushM(e.m(A(0)).Mirror(vec3(U(A(1), -1, 1), U(A(2), -1, 1), 0.3 + U(A(3), 0, 1))));
  } else if (n == "xf") {
    if (needM()) {
      mat3x4 t(vec3(U(A(1), .6, 1.4), U(A(2), -.3, .3), 0), vec3(U(A(3), -.3, .3), U(A(4), .6, 1.4), U(A(5), -.3, .3)),
               vec3(0, U(A(6), -.3, .3), U(A(7), .6, 1.4)), vec3(U(A(8), -.5, .5), U(A(9), -.5, .5), 0));
      e.pushM(e.m(A(0)).Transform(t));
    }
  }
  // ---------------- booleans
  else if (n == "add") {
    if (needM()) e.pushM(e.m(A(0)) + e.m(A(1)));
  } else if (n == "sub") {
    if (needM()) e.pushM(e.m(A(0)) - e.m(A(1)));
  } else if (n == "int") {
    if (needM()) e.pushM(e.m(A(0)) ^ e.m(A(1)));
  } else if (n == "batch") {
    if (needM()) {
      std::vector<Manifold> v;
      for (size_t i = 1; i < op.a.size(); i++) v.push_back(e.m(op.a[i]));
      e.pushM(Manifold::BatchBoolean(v, optype(A(0))));
    }
  } else if (n == "split") {
    if (needM()) {
      auto pr = e.m(A(0)).Split(e.m(A(1)));
      e.pushM(pr.first);
      e.pushM(pr.second);
    }
  } else if (n == "splitplane") {
    if (needM()) {
      auto pr = e.m(A(0)).SplitByPlane(vec3(U(A(1), -1, 1), U(A(2), -1, 1), 0.2 + U(A(3), 0, 1)), U(A(4), -.3, .3));
      e.pushM(pr.first);
      e.pushM(pr.second);
    }
  } else if (n == "trim") {
    if (needM()) e.pushM(e.m(A(0)).TrimByPlane(vec3(U(A(1), -1, 1), U(A(2), -1, 1), 0.2 + U(A(3), 0, 1)), U(A(4), -.3, .3)));
  } else if (n == "selfop") {  // in-place compound assignment on a pool member: produces the member anew
    if (needM()) {
      Manifold t = e.m(A(0));
      switch ((A(1) % 3 + 3) % 3) {
        case 0: t += e.m(A(2)); break;
        case 1: t -= e.m(A(2)); break;
        default: t ^= e.m(A(2)); break;
      }
      e.pushM(t);
    }
  } else if (n == "nest") {
    // One expression built from unnamed temporaries: a op ((b op ((c op d).T2)).T1). Temporaries that
    // nobody else owns are what the evaluator may collapse into their parent; a pool of named objects
    // never produces them. With eagerTemps every temporary is named and forced instead.
    if (needM()) {
      const OpType o1 = optype(A(0)), o2 = optype(A(1)), o3 = optype(A(2));
      const Manifold &a = e.m(A(3)), &b = e.m(A(4)), &c = e.m(A(5)), &d = e.m(A(6));
      auto T1 = [&](const Manifold& m) { return m.Rotate(U(A(7), 0, 360), U(A(8), 0, 360), 0).Translate(vec3(U(A(9), -.4, .4), 0, U(A(10), -.4, .4))); };
      auto T2 = [&](const Manifold& m) { return m.Scale(vec3(U(A(11), .6, 1.4), 1, U(A(12), .6, 1.4))).Rotate(0, U(A(13), 0, 360), U(A(14), 0, 360)); };
      if (e.eagerTemps) {
        Manifold t3 = c.Boolean(d, o3);
        (void)t3.Status();
        Manifold t3t = T2(t3);
        (void)t3t.Status();
        Manifold t2 = b.Boolean(t3t, o2);
        (void)t2.Status();
        Manifold t2t = T1(t2);
        (void)t2t.Status();
        Manifold t1 = a.Boolean(t2t, o1);
        (void)t1.Status();
        e.pushM(t1);
      } else {
        e.pushM(a.Boolean(T1(b.Boolean(T2(c.Boolean(d, o3)), o2)), o1));
      }
    }
  } else if (n == "speck") {
    // the operand plus a few specks far smaller than any tolerance used by simplify/settol
    if (needM()) {
      std::vector<Manifold> v{e.m(A(0))};
      int k = 1 + (int)(((A(1) % 3) + 3) % 3);
      for (int i = 0; i < k; i++)
        v.push_back(Manifold::Tetrahedron().Scale(vec3(U(A(2) + i, 2e-4, 2e-3))).Translate(vec3(3.0 + i, U(A(3), -1, 1), 0.5 * i)));
      e.pushM(Manifold::BatchBoolean(v, OpType::Add));
    }
  } else if (n == "compose") {
    if (needM()) {
      std::vector<Manifold> v{e.m(A(0)), e.m(A(1)).Translate(vec3(5 + (double)(A(2) % 3), 0, 0))};
      e.pushM(Manifold::BatchBoolean(v, OpType::Add));
    }
  }
  // ---------------- hull / minkowski
  else if (n == "hull") {
    if (needM()) e.pushM(e.m(A(0)).Hull());
  } else if (n == "hull2") {
    if (needM()) e.pushM(Manifold::Hull(std::vector<Manifold>{e.m(A(0)), e.m(A(1))}));
  } else if (n == "minksum" || n == "minkdiff") {
    if (needM()) {
      const Manifold& a = e.m(A(0));
      Manifold b = Manifold::Cube(vec3(U(A(2), .05, .2)), true);
      if (A(1) % 3 == 1) b = Manifold::Sphere(U(A(2), .05, .15), 8);
      if (A(1) % 3 == 2) b = e.m(A(3)).Scale(vec3(0.15));
      size_t lim = 120;
      if (a.NumTri() > lim || b.NumTri() > lim)
        e.note = "skipped:size";
      else
        e.pushM(n == "minksum" ? a.MinkowskiSum(b) : a.MinkowskiDifference(b));
    }
  }
  // ---------------- refinement / smoothing / simplification / properties
  else if (n == "refine") {
    if (needM()) {
      const Manifold& a = e.m(A(0));
      int k = 2 + (int)((A(1) % 3 + 3) % 3);
      if (a.NumTri() * k * k > (size_t)A(2, 200000))
        e.note = "skipped:size";
      else
        e.pushM(a.Refine(k));
    }
  } else if (n == "refinelen") {
    if (needM()) {
      const Manifold& a = e.m(A(0));
      const double len = U(A(1), .08, .4);
      const double area = a.SurfaceArea();
      // expected triangle count ~ area / len^2; keep the workload bounded
      if (a.NumTri() > 20000 || !(area / (len * len) < 60000))
        e.note = "skipped:size";
      else
        e.pushM(a.RefineToLength(len));
    }
  } else if (n == "refinetol") {
    if (needM()) {
      const Manifold& a = e.m(A(0));
      // RefineToTolerance divides an edge into sqrt(3 d / 4 tol) pieces, d growing with the tangents; the
      // count is cast to int unchecked (known finding C09-refine-division-overflow), so meshes whose
      // tangents dwarf their size are not fed to it by the generated programs
      bool wild = false;
      {
        MeshGL64 g = a.GetMeshGL64();
        const double lim = 100 * (a.BoundingBox().Scale() + 1e-9);
        for (double t : g.halfedgeTangent)
          if (!(std::abs(t) <= lim)) wild = true;
      }
      if (a.NumTri() > 5000 || !(a.SurfaceArea() < 50) || wild)
        e.note = wild ? "skipped:tangents" : "skipped:size";
      else
        e.pushM(a.RefineToTolerance(U(A(1), .002, .05)));
    }
  } else if (n == "smoothout") {
    if (needM()) e.pushM(e.m(A(0)).SmoothOut(U(A(1), 10, 90), A(2) % 4 == 0 ? 0.0 : U(A(2), 0, 1)));
  } else if (n == "smoothnorm") {
    if (needM()) {
      const Manifold& a = e.m(A(0));
      if (a.NumProp() < 3)
        e.pushM(a.CalculateNormals(0, U(A(1), 20, 80)).SmoothByNormals(0));
      else
        e.pushM(a.SmoothByNormals(0));
    }
  } else if (n == "smoothmesh") {
    if (needM()) {
      MeshGL64 g = e.m(A(0)).GetMeshGL64();
      std::vector<Smoothness> sharp;
      if (A(1) % 2 && g.triVerts.size() >= 3) sharp.push_back({(size_t)(A(2) % (int64_t)g.triVerts.size()), U(A(3), 0, 1)});
      e.pushM(Manifold::Smooth(g, sharp));
    }
  } else if (n == "simplify") {
    if (needM()) e.pushM(e.m(A(0)).Simplify(U(A(1), .001, .05)));
  } else if (n == "settol") {
    if (needM()) e.pushM(e.m(A(0)).SetTolerance(U(A(1), .0001, .05)));
  } else if (n == "calcnorm") {
    if (needM()) e.pushM(e.m(A(0)).CalculateNormals((int)((A(1) % 3 + 3) % 3), U(A(2), 10, 90)));
  } else if (n == "calccurv") {
    if (needM()) e.pushM(e.m(A(0)).CalculateCurvature((int)(A(1) % 3) - 1, (int)(A(2) % 3)));
  } else if (n == "setprops") {
    if (needM()) {
      const Manifold& a = e.m(A(0));
      int num = (int)((A(1) % 6 + 6) % 6), kind = (int)(A(2) % 4 + 4) % 4, numOld = (int)a.NumProp();
      e.pushM(a.SetProperties(num, [=](double* np, vec3 p, const double* old) { set_props(np, p, old, num, kind, numOld); }));
    }
  } else if (n == "warp") {
    if (needM()) {
      int kind = (int)((A(1) % 3 + 3) % 3);
      double amp = U(A(2), 0.02, 0.2);
      e.pushM(e.m(A(0)).Warp([=](vec3& v) {
        if (kind == 0) v.x += amp * v.y * v.y;
        if (kind == 1) v.z += amp * std::sin(3 * v.x);
        if (kind == 2) v *= (1 + amp * v.z);
      }));
    }
  } else if (n == "asorig") {
    if (needM()) e.pushM(e.m(A(0)).AsOriginal());
  } else if (n == "decompose") {
    if (needM()) {
      auto v = e.m(A(0)).Decompose();
      size_t lim = std::min<size_t>(v.size(), 3);
      for (size_t i = 0; i < lim; i++) e.pushM(v[i]);
      if (v.empty()) e.note = "empty";
    }
  }
  // ---------------- export / import
  else if (n == "rt64") {
    if (needM()) e.pushM(Manifold(e.m(A(0)).GetMeshGL64()));
  } else if (n == "mergemesh") {
    // export, forget the merge vectors, let MeshGL::Merge() re-derive them, import
    if (needM()) {
      MeshGL64 g = e.m(A(0)).GetMeshGL64();
      MeshGL64 s;
      s.numProp = g.numProp;
      s.vertProperties = g.vertProperties;
      s.triVerts = g.triVerts;
      s.tolerance = g.tolerance;
      s.Merge();
      // the merge vectors themselves are an output of the public API (MeshGL::Merge): make them
      // part of what is compared across builds and schedules
      e.pushM(Manifold(s));
      e.note = "merge:" + hex(hv(s.mergeFromVert)) + ":" + hex(hv(s.mergeToVert));
    }
  } else if (n == "soup") {
    // triangle soup (what an STL import looks like): every triangle gets its own three vertices, slightly
    // jittered; MeshGL::Merge() has to find the clusters again
    if (needM()) {
      MeshGL64 g = e.m(A(0)).GetMeshGL64();
      if (g.triVerts.size() / 3 > 40000) {
        e.note = "skipped:size";
      } else {
        MeshGL64 s;
        s.numProp = 3;
        Rng r((uint64_t)A(1) * 131 + 7);
        const double jit = (A(2) % 3 == 0) ? 0.0 : 1e-7;
        for (size_t t = 0; t < g.triVerts.size(); t++) {
          const size_t v = g.triVerts[t];
          for (int k = 0; k < 3; k++) s.vertProperties.push_back(g.vertProperties[v * g.numProp + k] + (jit > 0 ? r.uni(-jit, jit) : 0.0));
          s.triVerts.push_back(t);
        }
        s.tolerance = 1e-4;
        s.Merge();
        e.pushM(Manifold(s));
        e.note = "merge:" + hex(hv(s.mergeFromVert)) + ":" + hex(hv(s.mergeToVert));
      }
    }
  } else if (n == "rt32") {
    if (needM()) e.pushM(Manifold(e.m(A(0)).GetMeshGL()));
  } else if (n == "rtobj") {
    if (needM()) {
      std::stringstream ss;
      e.m(A(0)).WriteOBJ(ss);
      e.pushM(Manifold::ReadOBJ(ss));
    }
  }
  // ---------------- value ops
  else if (n == "copy") {
    if (needM()) {
      Manifold c = e.m(A(0));
      e.pushM(c);
    }
  } else if (n == "assign") {
    if (needM()) {
      size_t d = e.mi(A(0)), s = e.mi(A(1));
      if (e.onAssign) e.onAssign(false, d, s);
      e.used.push_back(e.idM[s]);
      e.M[d] = e.M[s];
      e.idM[d] = e.nextId++;
      e.produced.push_back({false, d});
      e.note = "assign";
    }
  } else if (n == "moveout") {
    if (needM()) {
      size_t s = e.mi(A(0));
      e.used.push_back(e.idM[s]);
      Manifold t = std::move(e.M[s]);
      e.eraseM(s);
      e.pushM(std::move(t));
    }
  } else if (n == "drop") {
    if (e.M.size() > 1) {
      e.eraseM(e.mi(A(0)));
      e.note = "drop";
    }
  } else if (n == "force") {
    if (needM()) {
      const Manifold& a = e.m(A(0));
      switch ((A(1) % 5 + 5) % 5) {
        case 0: (void)a.Status(); break;
        case 1: (void)a.NumTri(); break;
        case 2: (void)a.GetMeshGL64(); break;
        case 3: (void)a.BoundingBox(); break;
        default: (void)a.Volume(); break;
      }
      e.note = "force";
    }
  }
  // ---------------- 3D -> 2D
  else if (n == "slice") {
    if (needM()) e.pushX(CrossSection(e.m(A(0)).Slice(U(A(1), -.3, .3))));
  } else if (n == "project") {
    if (needM()) e.pushX(CrossSection(e.m(A(0)).Project()));
  }
  // ---------------- 2D
  else if (n == "circle") {
    e.pushX(CrossSection::Circle(U(A(0), .3, 1), 3 + (int)((A(1) % 2000 + 2000) % 2000)));
  } else if (n == "xmulti") {
    // several contours: an annulus, two islands, or an island next to an annulus
    const double r = U(A(1), .3, .8);
    const int seg = 3 + (int)((A(2) % 20 + 20) % 20);
    CrossSection ring = CrossSection::Circle(r, seg) - CrossSection::Circle(r * U(A(2), .3, .7), 3 + seg / 2);
    CrossSection isle = CrossSection::Square(vec2(r, r * .7), true).Translate(vec2(2.5 * r, .1));
    const int k = (int)((A(0) % 3 + 3) % 3);
    e.pushX(k == 0 ? ring : (k == 1 ? CrossSection::Circle(r, seg) + isle : ring + isle));
  } else if (n == "square") {
    e.pushX(CrossSection::Square(vec2(U(A(0), .3, 1.5), U(A(1), .3, 1.5)), A(2) % 2));
  } else if (n == "xpoly") {
    Polygons p = star_polys(A(0), A(1), A(2));
    e.pushX(A(3) % 2 ? CrossSection::EvenOdd(p) : CrossSection(p));
  } else if (n == "xrot") {
    if (needX()) e.pushX(e.x(A(0)).Rotate(U(A(1), 0, 360)));
  } else if (n == "xtrans") {
    if (needX()) e.pushX(e.x(A(0)).Translate(vec2(U(A(1), -.7, .7), U(A(2), -.7, .7))));
  } else if (n == "xscale") {
    if (needX()) e.pushX(e.x(A(0)).Scale(vec2(U(A(1), .5, 30), U(A(2), .5, 30))));
  } else if (n == "xmirror") {
    if (needX()) e.pushX(e.x(A(0)).Mirror(vec2(U(A(1), -1, 1), 0.2 + U(A(2), 0, 1))));
  } else if (n == "xadd") {
    if (needX()) e.pushX(e.x(A(0)) + e.x(A(1)));
  } else if (n == "xsub") {
    if (needX()) e.pushX(e.x(A(0)) - e.x(A(1)));
  } else if (n == "xint") {
    if (needX()) e.pushX(e.x(A(0)) ^ e.x(A(1)));
  } else if (n == "xbatch") {
    if (needX()) {
      std::vector<CrossSection> v;
      for (size_t i = 1; i < op.a.size(); i++) v.push_back(e.x(op.a[i]));
      e.pushX(CrossSection::BatchBoolean(v, optype(A(0))));
    }
  } else if (n == "xoffset") {
    if (needX()) {
      JoinType jt[4] = {JoinType::Round, JoinType::Miter, JoinType::Square, JoinType::Bevel};
      e.pushX(e.x(A(0)).Offset(U(A(1), -.15, .25), jt[(A(2) % 4 + 4) % 4], 2.0, (int)(A(3) % 32)));
    }
  } else if (n == "xhull") {
    if (needX()) e.pushX(e.x(A(0)).Hull());
  } else if (n == "xsimplify") {
    if (needX()) e.pushX(e.x(A(0)).Simplify(U(A(1), 1e-6, .05)));
  } else if (n == "xsettol") {
    if (needX()) e.pushX(e.x(A(0)).SetTolerance(U(A(1), 1e-6, .01)));
  } else if (n == "xdecompose") {
    if (needX()) {
      auto v = e.x(A(0)).Decompose();
      for (size_t i = 0; i < std::min<size_t>(v.size(), 3); i++) e.pushX(v[i]);
    }
  } else if (n == "xwarp") {
    if (needX()) {
      double amp = U(A(1), .02, .2);
      e.pushX(e.x(A(0)).Warp([=](vec2& v) { v.x += amp * v.y * v.y; }));
    }
  } else if (n == "xcopy") {
    if (needX()) {
      CrossSection c = e.x(A(0));
      e.pushX(c);
    }
  } else if (n == "xassign") {
    if (needX()) {
      size_t d = e.xi(A(0)), s = e.xi(A(1));
      if (e.onAssign) e.onAssign(true, d, s);
      e.used.push_back(e.idX[s]);
      e.X[d] = e.X[s];
      e.idX[d] = e.nextId++;
      e.produced.push_back({true, d});
      e.note = "assign";
    }
  } else if (n == "xforce") {
    if (needX()) {
      const CrossSection& c = e.x(A(0));
      switch ((A(1) % 4 + 4) % 4) {
        case 0: (void)c.ToPolygons(); break;
        case 1: (void)c.Area(); break;
        case 2: (void)c.GetTolerance(); break;
        default: (void)c.NumVert(); break;
      }
      e.note = "force";
    }
  } else {
    e.note = "unknown";
    return false;
  }
  return true;
}

}  // namespace vh
