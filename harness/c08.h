// C08 oracle: export -> (simulated storage) -> import is lossless up to
// renumbering. Returns "" or the first failing clause.
#pragma once
#include <cstring>
#include <sstream>

#include "manifold/manifold.h"
#include "oracles.h"
#include "store.h"
#include "util.h"

namespace vh {

struct CanonRec {
  std::vector<uint64_t> key;
  double normals[9];
  bool hasNormals = false;
};

struct CanonCfg {
  bool tangents = true;
  bool asFloat = false;  // round positions/properties/tangents to float first
  bool runs = true;      // include run data (originalID, flags, transform, faceID)
  bool props = true;
};

inline uint64_t dbits(double d) {
  uint64_t u;
  memcpy(&u, &d, 8);
  return u;
}

inline std::vector<CanonRec> canon_records(const MeshGL64& g, const CanonCfg& c) {
  std::vector<CanonRec> recs;
  const size_t np = g.numProp, nt = g.triVerts.size() / 3;
  const bool hasT = c.tangents && g.halfedgeTangent.size() == 12 * nt;
  const size_t nruns = g.runIndex.size() > 1 ? g.runIndex.size() - 1 : 1;
  for (size_t run = 0; run < nruns; run++) {
    size_t t0 = g.runIndex.size() > 1 ? g.runIndex[run] / 3 : 0;
    size_t t1 = g.runIndex.size() > 1 ? g.runIndex[run + 1] / 3 : nt;
    std::vector<uint64_t> head;
    const uint8_t flags = g.runFlags.size() > run ? g.runFlags[run] : 0;
    if (c.runs) {
      head.push_back(g.runOriginalID.size() > run ? g.runOriginalID[run] : 0xffffffffu);
      head.push_back(flags);
      const double id[12] = {1, 0, 0, 0, 1, 0, 0, 0, 1, 0, 0, 0};
      for (int k = 0; k < 12; k++) {
        double d = g.runTransform.size() >= 12 * (run + 1) ? g.runTransform[12 * run + k] : id[k];
        if (c.asFloat) d = (double)(float)d;
        head.push_back(dbits(d + 0.0));
      }
    }
    for (size_t t = t0; t < t1 && t < nt; t++) {
      std::vector<uint64_t> corner[3];
      double nrm[3][3] = {{0}};
      for (int k = 0; k < 3; k++) {
        const size_t v = g.triVerts[3 * t + k];
        for (size_t p = 0; p < (c.props ? np : 3); p++) {
          double d = g.vertProperties[v * np + p];
          if (c.asFloat) d = (double)(float)d;
          if ((flags & 2) && p >= 3 && p < 6) {
            nrm[k][p - 3] = d;
            continue;
          }
          corner[k].push_back(dbits(d + 0.0));  // -0.0 and 0.0 are one value (DedupePropVerts merges them, keeping either)
        }
        if (hasT)
          for (int q = 0; q < 4; q++) {
            double d = g.halfedgeTangent[4 * (3 * t + k) + q];
            if (c.asFloat) d = (double)(float)d;
            corner[k].push_back(dbits(d));
          }
      }
      int best = 0;
      for (int k = 1; k < 3; k++)
        if (corner[k] < corner[best]) best = k;
      CanonRec r;
      r.key = head;
      if (c.runs) r.key.push_back(g.faceID.size() == nt ? g.faceID[t] : 0);
      for (int k = 0; k < 3; k++) {
        auto& cc = corner[(best + k) % 3];
        r.key.insert(r.key.end(), cc.begin(), cc.end());
        for (int q = 0; q < 3; q++) r.normals[3 * k + q] = nrm[(best + k) % 3][q];
      }
      r.hasNormals = (flags & 2) && np >= 6;
      recs.push_back(std::move(r));
    }
  }
  std::sort(recs.begin(), recs.end(), [](const CanonRec& a, const CanonRec& b) { return a.key < b.key; });
  return recs;
}

inline std::string canon_compare(const MeshGL64& a, const MeshGL64& b, const CanonCfg& c) {
  if (a.numProp != b.numProp && c.props) return "numProp";
  if (a.triVerts.size() != b.triVerts.size()) return "triangle_count";
  if (c.tangents && (a.halfedgeTangent.empty() != b.halfedgeTangent.empty())) return "tangents_presence";
  auto ra = canon_records(a, c), rb = canon_records(b, c);
  if (ra.size() != rb.size()) return "record_count";
  for (size_t i = 0; i < ra.size(); i++) {
    if (ra[i].key != rb[i].key) {
      // name the part of the record that differs
      const auto& x = ra[i].key;
      const auto& y = rb[i].key;
      if (x.size() != y.size()) return "record_shape";
      size_t j = 0;
      while (j < x.size() && x[j] == y[j]) j++;
      if (c.runs) {
        if (j == 0) return "originalID";
        if (j == 1) return "runFlags";
        if (j < 14) return "runTransform";
        if (j == 14) return "faceID";
        j -= 15;
      }
      const size_t np = c.props ? a.numProp : 3;
      size_t nNormal = ra[i].hasNormals ? 3 : 0;
      size_t per = np - nNormal + ((c.tangents && !a.halfedgeTangent.empty()) ? 4 : 0);
      size_t within = per ? j % per : 0;
      if (within < 3) return "position";
      if (within < np - nNormal) {
        double va, vb;
        memcpy(&va, &x[j + (c.runs ? 15 : 0)], 8);
        memcpy(&vb, &y[j + (c.runs ? 15 : 0)], 8);
        char buf[120];
        snprintf(buf, sizeof buf, "(record %zu channel %zu: %.17g vs %.17g)", i, within - 3 + (nNormal && within >= 3 ? 3 : 0), va, vb);
        return std::string("property") + buf;
      }
      return "tangent";
    }
    if (ra[i].hasNormals) {
      for (int k = 0; k < 3; k++) {
        double na[3] = {ra[i].normals[3 * k], ra[i].normals[3 * k + 1], ra[i].normals[3 * k + 2]};
        double nb[3] = {rb[i].normals[3 * k], rb[i].normals[3 * k + 1], rb[i].normals[3 * k + 2]};
        double la_ = std::sqrt(na[0] * na[0] + na[1] * na[1] + na[2] * na[2]);
        double lb_ = std::sqrt(nb[0] * nb[0] + nb[1] * nb[1] + nb[2] * nb[2]);
        if ((la_ == 0) != (lb_ == 0)) return "normal_zero";
        if (la_ == 0) continue;
        for (int q = 0; q < 3; q++) {
          double d = std::abs(na[q] / la_ - nb[q] / lb_);
          if (!(d <= (c.asFloat ? 1e-5 : 1e-14))) return "normal";
        }
      }
    }
  }
  return "";
}

// Applies the merge vectors only (positions + triangles + merge) and checks
// that the library accepts it as a manifold with the same counts.
inline std::string merge_vectors_suffice(const Manifold& m, const MeshGL64& g) {
  MeshGL64 s;
  s.numProp = g.numProp;
  s.vertProperties = g.vertProperties;
  s.triVerts = g.triVerts;
  s.mergeFromVert = g.mergeFromVert;
  s.mergeToVert = g.mergeToVert;
  Manifold r(s);
  if (r.Status() != Manifold::Error::NoError) return "merge_vectors_insufficient:status" + std::to_string((int)r.Status());
  if (r.NumTri() != m.NumTri() || r.NumVert() != m.NumVert()) return "merge_vectors_counts";
  return "";
}

inline std::string merge_rederives(const Manifold& m, const MeshGL64& g) {
  MeshGL64 s;
  s.numProp = g.numProp;
  s.vertProperties = g.vertProperties;
  s.triVerts = g.triVerts;
  // The statement is about vertices split for their properties, which coincide exactly: Merge() runs at
  // its default (geometric) tolerance. With the object's own, raised tolerance (SetTolerance) Merge() fuses
  // every pair of open vertices closer than that, by design, and may destroy a mesh whose features are
  // smaller -- that is not what the clause claims.
  s.Merge();
  Manifold r(s);
  if (r.Status() != Manifold::Error::NoError) {
    char buf[64];
    snprintf(buf, sizeof buf, "(tolerance %.6g)", (double)g.tolerance);
    return "Merge_insufficient:status" + std::to_string((int)r.Status()) + buf;
  }
  // Merge() works from positions, so vertices the library keeps distinct at
  // one position (split pinched vertices) may be fused and split again on
  // import: counts may differ, manifoldness (NoError) is what is promised.
  (void)m;
  return "";
}

inline std::string c08_check(const Manifold& m, const MeshGL64& g, const Args& a) {
  // ---- 64-bit path through the simulated store (fault-free arm)
  MeshGL64 stored = SimStore::roundtrip(g);
  Manifold m2(stored);
  if (m2.Status() != Manifold::Error::NoError) return "reimport64_status:" + std::to_string((int)m2.Status());
  MeshGL64 g2 = m2.GetMeshGL64();
  CanonCfg full;
  std::string d = canon_compare(g, g2, full);
  if (!d.empty()) return "reexport64_differs:" + d;
  if (!(g2.tolerance >= g.tolerance)) return "tolerance_shrank";
  // the export must carry the object's tolerance, and the rebuilt object must not have a smaller one
  if (g.tolerance != m.GetTolerance()) return "exported_tolerance_differs_from_GetTolerance";
  if (!(m2.GetTolerance() >= m.GetTolerance())) return "reimported_tolerance_smaller";
  if (m2.NumVert() != m.NumVert() || m2.NumTri() != m.NumTri()) return "reimport64_counts";
  // ---- merge vectors
  d = merge_vectors_suffice(m, g);
  if (!d.empty()) return d;
  if (a.i("c08merge", 1)) {
    d = merge_rederives(m, g);
    if (!d.empty()) return d;
  }
  // ---- 32-bit path: same structure, positions within float rounding
  if (a.i("c08f32", 1)) {
    MeshGL gf = m.GetMeshGL();
    Manifold mf(gf);
    if (mf.Status() != Manifold::Error::NoError) return "reimport32_status:" + std::to_string((int)mf.Status());
    if (mf.NumTri() != m.NumTri()) return "reimport32_tri_count";
    MeshGL64 gf2 = mf.GetMeshGL64();
    if (gf2.runOriginalID != g.runOriginalID) return "reimport32_runOriginalID";
    if (gf2.runIndex != g.runIndex) return "reimport32_runIndex";
    if (gf2.runFlags != g.runFlags) return "reimport32_runFlags";
  }
  return "";
}

}  // namespace vh
