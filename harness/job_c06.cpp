// C06: shared objects used from many simulated client threads: no data race
// (TSan as happens-before oracle in the par-tsan flavour), no deadlock (the
// scheduler's enabled set never empties), same answers as a serial execution
// (each thread's observation log equals the log of the same program run alone
// on a freshly built shared pool, modulo original-ID renaming).
#include <set>

#include "execution_impl.h"
#include "impl.h"
#include "jobs.h"
#include "ops.h"
#include "oracles.h"

namespace vh {
namespace {

// ID-insensitive fingerprint: original IDs replaced by their rank within the object.
std::string fp_idfree(const Manifold& m) {
  MeshGL64 g = m.GetMeshGL64();
  std::vector<uint32_t> ids = g.runOriginalID, sorted = ids;
  std::sort(sorted.begin(), sorted.end());
  sorted.erase(std::unique(sorted.begin(), sorted.end()), sorted.end());
  for (auto& x : ids) x = (uint32_t)(std::lower_bound(sorted.begin(), sorted.end(), x) - sorted.begin());
  g.runOriginalID = ids;
  std::string s = "M st" + std::to_string((int)m.Status()) + " nv" + std::to_string(m.NumVert()) + " nt" + std::to_string(m.NumTri()) +
                  " nq" + std::to_string(m.NumProp()) + " g" + std::to_string(m.Genus()) + " orig" + std::to_string(m.OriginalID() >= 0 ? 1 : 0);
  Box b = m.BoundingBox();
  s += " bb" + hex(fnv(&b, sizeof b));
  return s + fp_mesh(g);
}

struct Shared {
  Env env;
  ExecutionContext ctx;
};

// One observation. `exact` text must match the serial reference exactly;
// solid-level numbers must agree within rounding (the exact mesh of a lazily
// evaluated expression legitimately depends on which shared sub-expressions
// were already forced -- see C03 -- so mesh-level data is not compared).
struct Entry {
  std::string op;     // op text
  std::string exact;  // compared exactly ("" = nothing)
  std::vector<double> solid;  // compared within tolerance
  bool cancelled = false;
};

struct ThreadPlan {
  std::vector<Op> ops;
  std::vector<Entry> log;
  std::vector<std::pair<uint32_t, uint32_t>> reserved;
  Shared* sh = nullptr;
  int tid = 0;
  std::string progressClause;
};

Entry obs_manifold(const std::string& op, const Manifold& m) {
  Entry e;
  e.op = op;
  auto st = m.Status();
  if (st == Manifold::Error::Cancelled) {
    e.cancelled = true;
    e.exact = (m.IsEmpty() && m.NumTri() == 0) ? "cancelled" : "cancelled:NOT_EMPTY";
    return e;
  }
  e.exact = "st" + std::to_string((int)st) + " nq" + std::to_string(m.NumProp()) + " empty" + std::to_string((int)m.IsEmpty());
  {
    // Provenance that does not depend on forcing order: which originals (rank-renamed) the runs name,
    // with their flags. A mesh ID without a relation entry shows up here as an extra run / ID -1.
    MeshGL64 g = m.GetMeshGL64();
    std::vector<uint32_t> ids = g.runOriginalID, sorted = ids;
    std::sort(sorted.begin(), sorted.end());
    sorted.erase(std::unique(sorted.begin(), sorted.end()), sorted.end());
    e.exact += " runs" + std::to_string(ids.size()) + ":";
    std::vector<std::string> desc;  // as a multiset: instances of one original are ordered by mesh ID, which depends on evaluation order
    for (size_t i = 0; i < ids.size(); i++) {
      uint32_t rank = (uint32_t)(std::lower_bound(sorted.begin(), sorted.end(), ids[i]) - sorted.begin());
      desc.push_back((ids[i] == 0xffffffffu ? std::string("X") : std::to_string(rank)) + (i < g.runFlags.size() ? (g.runFlags[i] & 1 ? "b" : "f") : "?"));
    }
    std::sort(desc.begin(), desc.end());
    for (auto& d : desc) e.exact += d + ",";
  }
  Box b = m.BoundingBox();
  // Volume and bounding box only: the surface area is not a function of the solid. A result that
  // contains zero-thickness sheets (coincident faces of operands that share a sub-expression) keeps
  // or loses them depending on which shared nodes were already evaluated -- in a single thread too
  // (seen: area 2.7909 vs 2.7980 at identical volume, purely serial, with and without an earlier
  // query on a shared operand). C03 promises the solid, not the sheets.
  (void)m.SurfaceArea();
  e.solid = {m.Volume()};
  if (b.IsFinite())
    for (int k = 0; k < 3; k++) {
      e.solid.push_back(b.min[k]);
      e.solid.push_back(b.max[k]);
    }
  (void)m.GetMeshGL64();
  (void)m.Genus();
  return e;
}

Entry query(const std::string& op, const Manifold& m, int g) {
  Entry e;
  e.op = op;
  switch (((g % 10) + 10) % 10) {
    case 0: e.exact = "status" + std::to_string((int)m.Status()); break;
    case 1: (void)m.NumTri(); break;
    case 2: (void)m.NumVert(); break;
    case 3: e.solid = {m.Volume()}; break;
    case 4: {
      Box b = m.BoundingBox();
      if (b.IsFinite()) e.solid = {b.min.x, b.min.y, b.min.z, b.max.x, b.max.y, b.max.z};
      break;
    }
    case 5: (void)m.GetMeshGL64(); break;
    case 6: (void)m.Genus(); break;
    case 7: {
      e.solid = {m.GetTolerance()};
      break;
    }
    case 8: e.exact = "empty" + std::to_string((int)m.IsEmpty()); break;
    default: (void)m.SurfaceArea(); break;  // called (it forces evaluation and reads the mesh) but not compared, see obs_manifold
  }
  if (m.Status() == Manifold::Error::Cancelled) {
    e = Entry();
    e.op = op;
    e.cancelled = true;
    e.exact = "cancelled";
  }
  return e;
}

Entry obs_cross(const std::string& op, const CrossSection& c) {
  Entry e;
  e.op = op;
  Rect r = c.Bounds();
  e.exact = "nc" + std::to_string(c.NumContour());
  e.solid = {c.Area()};
  if (r.IsFinite()) {
    e.solid.push_back(r.min.x);
    e.solid.push_back(r.min.y);
    e.solid.push_back(r.max.x);
    e.solid.push_back(r.max.y);
  }
  (void)c.ToPolygons();
  return e;
}

Entry xquery(const std::string& op, const CrossSection& c, int g) {
  Entry e;
  e.op = op;
  switch (((g % 5) + 5) % 5) {
    case 0: (void)c.GetTolerance(); break;  // value depends on whether the lazy transform is materialised (C05's subject)
    case 1: e.solid = {c.Area()}; break;
    case 2: (void)c.NumVert(); break;
    case 3: return obs_cross(op, c);
    default: {
      Rect r = c.Bounds();
      if (r.IsFinite()) e.solid = {r.min.x, r.min.y, r.max.x, r.max.y};
      break;
    }
  }
  return e;
}

Entry plain(const std::string& op) {
  Entry e;
  e.op = op;
  return e;
}

void run_plan(ThreadPlan& tp) {
  Shared& sh = *tp.sh;
  const std::vector<Manifold>& SM = sh.env.M;
  const std::vector<CrossSection>& SX = sh.env.X;
  auto si = [&](int64_t i) { return (size_t)(((i % (int64_t)SM.size()) + SM.size()) % SM.size()); };
  auto sxi = [&](int64_t i) { return (size_t)(((i % (int64_t)SX.size()) + SX.size()) % SX.size()); };
  Env loc;
  loc.capM = 16;
  loc.capX = 8;
  for (auto& op : tp.ops) {
    const std::string& n = op.name;
    const std::string ot = op.text();
    auto A = [&](size_t i, int64_t d = 0) { return op.arg(i, d); };
    if (n == "sq" && !SM.empty()) {
      tp.log.push_back(query(ot, SM[si(A(0))], (int)A(1)));
    } else if (n == "scopy" && !SM.empty()) {
      Manifold c = SM[si(A(0))];
      loc.pushM(c);
      tp.log.push_back(obs_manifold(ot, loc.M.back()));
    } else if (n == "scopylazy" && !SM.empty()) {
      Manifold c = SM[si(A(0))];  // copy without forcing
      loc.pushM(c);
      tp.log.push_back(plain(ot));
    } else if (n == "sassign" && !SM.empty()) {
      if (loc.M.empty()) loc.pushM(Manifold());
      size_t d = loc.mi(A(1));
      loc.M[d] = SM[si(A(0))];
      tp.log.push_back(obs_manifold(ot, loc.M[d]));
    } else if (n == "sbool" && !SM.empty()) {
      Manifold r = SM[si(A(1))].Boolean(SM[si(A(2))].Rotate(U(A(3), 5, 80), U(A(4), 5, 80), 13).Translate(vec3(U(A(3), .05, .3), .07, .11)), optype(A(0)));
      loc.pushM(r);
      tp.log.push_back(obs_manifold(ot, loc.M.back()));
    } else if (n == "sxf" && !SM.empty()) {
      loc.pushM(SM[si(A(0))].Rotate(U(A(1), 0, 360), U(A(2), 0, 360), U(A(3), 0, 360)).Translate(vec3(U(A(1), -.5, .5), 0, 0)));
      tp.log.push_back(obs_manifold(ot, loc.M.back()));
    } else if (n == "rid") {
      uint32_t cnt = 1 + (uint32_t)(((A(0) % 50) + 50) % 50);
      uint32_t st = Manifold::ReserveIDs(cnt);
      tp.reserved.push_back({st, cnt});
      tp.log.push_back(plain(ot));
    } else if (n == "sxq" && !SX.empty()) {
      tp.log.push_back(xquery(ot, SX[sxi(A(0))], (int)A(1)));
    } else if (n == "sxcopy" && !SX.empty()) {
      CrossSection c = SX[sxi(A(0))];
      loc.pushX(c);
      tp.log.push_back(obs_cross(ot, loc.X.back()));
    } else if (n == "sxbool" && !SX.empty()) {
      loc.pushX(SX[sxi(A(1))].Boolean(SX[sxi(A(2))].Rotate(U(A(3), 5, 80)).Translate(vec2(.13, .07)), optype(A(0))));
      tp.log.push_back(obs_cross(ot, loc.X.back()));
    } else if (n == "sxxf" && !SX.empty()) {
      loc.pushX(SX[sxi(A(0))].Rotate(U(A(1), 0, 360)).Scale(vec2(U(A(2), .5, 20), U(A(3), .5, 20))));
      tp.log.push_back(obs_cross(ot, loc.X.back()));
    } else if (n == "ctxstatus" && !SM.empty()) {
      Manifold w = SM[si(A(0))].WithContext(sh.ctx);
      (void)w.Status();
      tp.log.push_back(obs_manifold(ot, w));
    } else if (n == "cancel") {
      sh.ctx.Cancel();
      Entry e = plain(ot);
      e.exact = "cancel";
      tp.log.push_back(e);
    } else if (n == "poll") {
      double p = sh.ctx.Progress();
      (void)sh.ctx.Cancelled();
      if (!(p >= 0.0 && p <= 1.0) && tp.progressClause.empty()) tp.progressClause = "progress_out_of_range:" + std::to_string(p);
      tp.log.push_back(plain(ot));
    } else {
      // ordinary op on the thread's local pool
      exec(loc, op);
      bool any = false;
      for (auto& p : loc.produced) {
        tp.log.push_back(p.isX ? obs_cross(ot, loc.X[p.idx]) : obs_manifold(ot, loc.M[p.idx]));
        any = true;
      }
      if (!any) tp.log.push_back(plain(ot + "=" + loc.note));
      loc.evict(A(0));
    }
  }
}

void thread_entry(void* p) { run_plan(*static_cast<ThreadPlan*>(p)); }

void build_shared(Shared& sh, const std::vector<Op>& setup) {
  sh.env = Env();
  sh.env.capM = 64;
  sh.env.capX = 64;
  for (auto& op : setup) exec(sh.env, op);
}

std::string job_c06(const Args& a) {
  SimSetup s = sim_setup(a);
  const auto setup = parse_program(a.s("setup"));
  std::vector<std::vector<Op>> plans;
  for (auto& t : split(a.s("plans"), '|')) plans.push_back(parse_program(t));
  const bool compareAlone = a.i("alone", 1);
  JArr dump;
  JArr viol;
  uint64_t logEntries = 0;
  bool hasCancel = false;
  for (auto& pl : plans)
    for (auto& op : pl)
      if (op.name == "cancel") hasCancel = true;
  SimOutcome out = run_simulated(s, [&]() {
    Shared sh;
    build_shared(sh, setup);
    std::vector<ThreadPlan> tps(plans.size());
    for (size_t t = 0; t < plans.size(); t++) {
      tps[t].ops = plans[t];
      tps[t].sh = &sh;
      tps[t].tid = (int)t;
    }
    for (auto& tp : tps) sim::client(thread_entry, &tp);
    sim::join_clients();
    // (4) reserved ID ranges pairwise disjoint
    std::vector<std::pair<uint32_t, uint32_t>> all;
    for (auto& tp : tps)
      for (auto& r : tp.reserved) all.push_back(r);
    std::sort(all.begin(), all.end());
    for (size_t i = 1; i < all.size(); i++)
      if (all[i - 1].first + all[i - 1].second > all[i].first)
        viol.raw(JObj().i64("thread", -1).str("clause", "reserved_id_ranges_overlap").done());
    for (auto& tp : tps) {
      logEntries += tp.log.size();
      if (!tp.progressClause.empty()) viol.raw(JObj().i64("thread", tp.tid).str("clause", tp.progressClause).done());
      for (auto& l : tp.log) {
        if (l.exact.find(":NOT_EMPTY") != std::string::npos) viol.raw(JObj().i64("thread", tp.tid).str("clause", "cancelled_result_not_empty").done());
        if (l.cancelled && !hasCancel) viol.raw(JObj().i64("thread", tp.tid).str("clause", "cancelled_without_cancel:" + l.op.substr(0, l.op.find(':'))).done());
      }
    }
    // (3) every thread observes what a serial execution would give
    if (compareAlone) {
      for (size_t t = 0; t < plans.size(); t++) {
        Shared fresh;
        build_shared(fresh, setup);
        ThreadPlan alone;
        alone.sh = &fresh;
        // the reference run uses a private, never-cancelled context
        for (auto& op : plans[t])
          if (op.name != "cancel") alone.ops.push_back(op);
        run_plan(alone);
        size_t ia = 0;
        for (size_t ic = 0; ic < tps[t].log.size(); ic++) {
          const Entry& lc = tps[t].log[ic];
          if (a.i("dump", 0)) {
            std::string vals;
            char buf[40];
            for (double v : lc.solid) { snprintf(buf, sizeof buf, "%.17g ", v); vals += buf; }
            dump.raw(JObj().i64("thread", (int64_t)t).str("op", lc.op).str("exact", lc.exact).str("solid", vals).done());
          }
          if (lc.exact == "cancel") continue;
          if (ia >= alone.log.size()) {
            viol.raw(JObj().i64("thread", (int64_t)t).str("clause", "log_length_differs").done());
            break;
          }
          const Entry& la_ = alone.log[ia++];
          // Once Cancel() was issued on the shared context, an evaluation that shares in-flight
          // op nodes with the cancelled one may legitimately report Cancelled (documented poisoning).
          if (hasCancel && lc.cancelled) continue;
          std::string opname = lc.op.substr(0, lc.op.find(':'));
          if (lc.exact != la_.exact) {
            viol.raw(JObj().i64("thread", (int64_t)t).str("clause", "differs_from_serial:" + opname + ":exact").str("op", lc.op).str("got", lc.exact).str("want", la_.exact).done());
            break;
          }
          bool bad = lc.solid.size() != la_.solid.size();
          for (size_t q = 0; !bad && q < lc.solid.size(); q++) {
            double x = lc.solid[q], y = la_.solid[q];
            if (!(std::abs(x - y) <= 1e-7 * (1 + std::abs(x) + std::abs(y)))) bad = true;
          }
          if (bad) {
            std::string got, want;
            char buf[40];
            for (double v : lc.solid) { snprintf(buf, sizeof buf, "%.17g ", v); got += buf; }
            for (double v : la_.solid) { snprintf(buf, sizeof buf, "%.17g ", v); want += buf; }
            viol.raw(JObj().i64("thread", (int64_t)t).str("clause", "differs_from_serial:" + opname + ":solid").str("op", lc.op).str("got", got).str("want", want).done());
            break;
          }
        }
      }
    }
  });
  if (out.exception) viol.raw(JObj().i64("thread", -1).str("clause", "exception:" + out.what).done());
  JObj j;
  j.i64("threads", (int64_t)plans.size()).u64("log_entries", logEntries).raw("viol", viol.done()).raw("sim", outcome_json(out));
  if (a.i("dump", 0)) j.raw("dump", dump.done());
  return j.done();
}

}  // namespace

void register_c06() { registry()["c06"] = job_c06; }

}  // namespace vh
