#include "jobs.h"
namespace vh {
void register_c06() {}
}  // namespace vh
