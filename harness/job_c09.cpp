// C09: malformed stored input gives an error Status, never undefined
// behaviour. A stored object (export of a small menu object) is subjected to
// explicit storage faults (SimStore) or stream faults (SimStreambuf, OBJ) and
// imported; the result is driven through a consuming program.
//
// job c09:    obj=<menu id> stale=<menu id> (faults=<list> | from=<i> to=<j>) precision=64|32
// job c09obj: obj=<menu id> kind=eof|error|flip|short|crlf from=<i> to=<j>
// job c09count: number of enumerated single faults for (obj, stale)
#include <set>
#include <sstream>

#include "jobs.h"
#include "ops.h"
#include "oracles.h"
#include "store.h"

namespace vh {
namespace {

const char* kMenu[] = {
    /*0*/ "tet",
    /*1*/ "cube:500,500,500,1;setprops:0,2,1",
    /*2*/ "cube:500,500,500,1;sphere:300,2;trans:1,700,600,550;add:0,2",
    /*3*/ "cube:500,500,500,1;sphere:300,2;trans:1,700,600,550;sub:0,2",
    /*4*/ "cube:300,300,300,0;trans:0,900,500,500;rot:0,100,200,300;add:1,2;mirror:3,500,200,100;add:3,4",
    /*5*/ "cube:500,500,500,1;smoothout:0,300,500",
    /*6*/ "cube:500,500,500,1;calcnorm:0,0,900",
    /*7*/ "sphere:500,2;cube:100,100,100,1;sub:0,1;smoothout:2,700,300;setprops:3,1,2",
    /*8*/ "tet;setprops:0,3,0;calcnorm:1,0,100;refine:2,0",
};
const int kMenuSize = sizeof(kMenu) / sizeof(kMenu[0]);

Manifold menu_object(int id) {
  Env e;
  e.capM = 64;
  for (auto& op : parse_program(kMenu[((id % kMenuSize) + kMenuSize) % kMenuSize])) exec(e, op);
  return e.M.back();
}

// Faults on pairs of coupled arrays (their lengths are validated against each other): every
// combination of a few lengths for (runIndex, runOriginalID), (runOriginalID, runTransform),
// (runOriginalID, runFlags), (mergeFromVert, mergeToVert), (triVerts, faceID), (triVerts, halfedgeTangent).
std::vector<std::vector<Fault>> enumerate_pairs(const StoredMesh& s) {
  std::vector<std::vector<Fault>> out;
  const int groups[6][2] = {{F_RI, F_RO}, {F_RO, F_RT}, {F_RO, F_RF}, {F_MF, F_MT}, {F_TV, F_FI}, {F_TV, F_HT}};
  for (auto& gp : groups) {
    std::vector<std::vector<Fault>> opts[2];
    for (int side = 0; side < 2; side++) {
      const int fi = gp[side];
      const size_t n = s.elems(fi);
      opts[side].push_back({});  // untouched
      if (n > 0) {
        opts[side].push_back({Fault{"lose", fi, 0, 0, 0}});
        for (int64_t k : {(int64_t)1, (int64_t)2, (int64_t)3, (int64_t)n - 1})
          if (k > 0 && (size_t)k < n) opts[side].push_back({Fault{"truncate", fi, k, 0, 0}});
        opts[side].push_back({Fault{"dup", fi, (int64_t)n - 1, 0, 0}});
      } else {
        opts[side].push_back({Fault{"mix", fi, 0, 0, 0}});
      }
    }
    for (auto& a : opts[0])
      for (auto& b : opts[1]) {
        if (a.empty() && b.empty()) continue;
        if (a.empty() || b.empty()) continue;  // single faults are in the other enumerations
        std::vector<Fault> c = a;
        c.insert(c.end(), b.begin(), b.end());
        out.push_back(c);
      }
  }
  return out;
}

// The structurally dangerous single faults (lengths, lost/torn arrays, indices at and beyond
// every bound, non-finite and extreme values, scalars): small enough to run completely in
// every quick pass. The full enumeration adds the bit flips and every truncation/tear point.
std::vector<Fault> enumerate_smoke(const StoredMesh& s) {
  std::vector<Fault> out;
  const int64_t nVert = (int64_t)(s.elems(F_VP) / std::max<uint64_t>(1, s.numProp));
  const int64_t nTriV = (int64_t)s.elems(F_TV);
  for (int fi = 0; fi < F_COUNT; fi++) {
    const size_t n = s.elems(fi), es = kElemSize[fi];
    if (n == 0) {
      out.push_back({"mix", fi, 0, 0, 0});  // an absent array replaced by another version's
      continue;
    }
    std::vector<size_t> where = {0, n / 2, n - 1};
    out.push_back({"lose", fi, 0, 0, 0});
    out.push_back({"mix", fi, 0, 0, 0});
    for (int64_t k : {(int64_t)n - 1, (int64_t)n - 2, (int64_t)n / 2, (int64_t)1, (int64_t)2, (int64_t)3, (int64_t)4, (int64_t)12})
      if (k >= 0 && (size_t)k < n) out.push_back({"truncate", fi, k, 0, 0});
    out.push_back({"truncbytes", fi, (int64_t)(n * es - 1), 0, 0});
    for (size_t k : {(size_t)0, n / 2}) {
      out.push_back({"tear", fi, (int64_t)k, 0, 0});
      out.push_back({"tear", fi, (int64_t)k, 1, 0});
    }
    for (size_t e : where) {
      out.push_back({"dup", fi, (int64_t)e, 0, 0});
      for (const char* k : {"nan", "inf", "neg", "huge"}) out.push_back({k, fi, (int64_t)e, 0, 0});
      if (es == 8 && fi != F_VP && fi != F_RT && fi != F_HT)
        for (int64_t v : {(int64_t)0, nVert - 1, nVert, nVert + 1, nTriV, nTriV + 3, nTriV - 3, (int64_t)1 << 31, ((int64_t)1 << 32) + 1,
                          ((int64_t)1 << 32) + nVert - 1})
          out.push_back({"setidx", fi, (int64_t)e, v, 0});
      if (es == 4 || es == 1)
        for (int b : {0, 1, 7}) out.push_back({"flip", fi, (int64_t)e, b, 0});
    }
  }
  for (int64_t v : {0, 1, 2, 4, 5, 6, 7, 1000}) out.push_back({"numprop", 0, v, 0, 0});
  out.push_back({"numprop", 0, (int64_t)s.numProp - 1, 0, 0});
  out.push_back({"numprop", 0, (int64_t)s.numProp + 1, 0, 0});
  for (int64_t v = 0; v < 6; v++) out.push_back({"tol", 0, v, 0, 0});
  return out;
}

std::vector<Fault> enumerate_faults(const StoredMesh& s) {
  std::vector<Fault> out;
  const int bits64[] = {0, 1, 7, 20, 31, 32, 51, 52, 55, 62, 63};
  for (int fi = 0; fi < F_COUNT; fi++) {
    const size_t n = s.elems(fi), es = kElemSize[fi];
    const size_t stepE = n <= 48 ? 1 : n / 48 + 1;
    for (size_t e = 0; e < n; e += stepE)
      for (int b : bits64)
        if ((size_t)b < es * 8) out.push_back({"flip", fi, (int64_t)e, b, 0});
    for (size_t k = 0; k < n; k += stepE) out.push_back({"truncate", fi, (int64_t)k, 0, 0});
    if (n > 0) {
      out.push_back({"truncate", fi, (int64_t)n - 1, 0, 0});
      out.push_back({"truncbytes", fi, (int64_t)(n * es - 1), 0, 0});
      out.push_back({"truncbytes", fi, (int64_t)(n * es / 2 + 1), 0, 0});
      out.push_back({"lose", fi, 0, 0, 0});
      out.push_back({"mix", fi, 0, 0, 0});
    }
    for (size_t k = 0; k < n; k += stepE) {
      out.push_back({"tear", fi, (int64_t)k, 0, 0});
      out.push_back({"tear", fi, (int64_t)k, 1, 0});
    }
    for (size_t e = 0; e < n; e += std::max<size_t>(1, n / 6)) {
      out.push_back({"dup", fi, (int64_t)e, 0, 0});
      out.push_back({"dup", fi, (int64_t)e, 2, 0});
    }
    for (size_t e = 0; e < n; e += std::max<size_t>(1, n / 12))
      for (const char* k : {"nan", "inf", "neg", "huge"}) out.push_back({k, fi, (int64_t)e, 0, 0});
    if (es == 8 && fi != F_VP && fi != F_RT && fi != F_HT)
      for (size_t e = 0; e < n; e += std::max<size_t>(1, n / 8))
        for (int64_t v : {(int64_t)0, (int64_t)s.elems(F_VP) / (int64_t)std::max<uint64_t>(1, s.numProp) - 1,
                          (int64_t)s.elems(F_VP) / (int64_t)std::max<uint64_t>(1, s.numProp), (int64_t)s.elems(F_TV), (int64_t)s.elems(F_TV) + 3,
                          (int64_t)1 << 31, ((int64_t)1 << 32) + 1})
          out.push_back({"setidx", fi, (int64_t)e, v, 0});
  }
  for (int64_t v : {0, 1, 2, 4, 5, 7, 1000, -1}) out.push_back({"numprop", 0, v == -1 ? (int64_t)s.numProp + 1 : v, 0, 0});
  out.push_back({"numprop", 0, (int64_t)s.numProp - 1, 0, 0});
  for (int64_t v = 0; v < 6; v++) out.push_back({"tol", 0, v, 0, 0});
  return out;
}

struct Verdict {
  std::string clause;  // "" ok
  int status = 0;
};

// The consuming program. Every result must report the error (sticky); for a
// usable import nothing may crash and everything must satisfy C01.
// `tolerated`: clauses that the *unfaulted* object already shows (those are
// C01's findings, not consequences of the fault); `collect`: gather instead of
// stopping at the first.
Verdict consume(const Manifold& m, const std::set<std::string>* tolerated = nullptr, std::set<std::string>* collect = nullptr) {
  Verdict v;
  v.status = (int)m.Status();
  MeshGL64 g = m.GetMeshGL64();
  std::string cl = check_manifold_invariant(m, g);
  if (!cl.empty()) {
    v.clause = "import_result:" + cl;
    return v;
  }
  const Manifold cube = Manifold::Cube(vec3(0.8), true).Translate(vec3(0.1, 0.05, 0.02));
  const auto err = m.Status();
  const bool bad = err != Manifold::Error::NoError;
  std::vector<std::pair<const char*, Manifold>> outs;
  outs.push_back({"add", m + cube});
  outs.push_back({"sub_rev", cube - m});
  outs.push_back({"int", m ^ cube});
  outs.push_back({"translate", m.Translate(vec3(1, 2, 3))});
  outs.push_back({"rotate", m.Rotate(10, 20, 30)});
  outs.push_back({"refine", m.Refine(2)});
  outs.push_back({"refinelen", m.RefineToLength(0.5)});
  outs.push_back({"hull", m.Hull()});
  outs.push_back({"hullset", Manifold::Hull(std::vector<Manifold>{m, cube})});
  outs.push_back({"setprops", m.SetProperties(2, [](double* n, vec3 p, const double*) { n[0] = p.x; n[1] = p.y; })});
  outs.push_back({"calcnorm", m.CalculateNormals(0, 60)});
  outs.push_back({"calccurv", m.CalculateCurvature(0, 1)});
  outs.push_back({"smoothout", m.SmoothOut(60, 0.5)});
  outs.push_back({"simplify", m.Simplify(0.01)});
  outs.push_back({"settol", m.SetTolerance(0.01)});
  outs.push_back({"asorig", m.AsOriginal()});
  outs.push_back({"warp", m.Warp([](vec3& p) { p.x += 0.1 * p.y; })});
  outs.push_back({"mirror", m.Mirror(vec3(1, 1, 0))});
  outs.push_back({"trim", m.TrimByPlane(vec3(0, 0, 1), 0.0)});
  outs.push_back({"batch", Manifold::BatchBoolean({m, cube, cube.Translate(vec3(0.3, 0, 0))}, OpType::Add)});
  // (export -> re-import is not in this list: MeshGL has no status field, an
  // errored object exports as an empty mesh, which is a valid empty solid.)
  {
    auto pr = m.Split(cube);
    outs.push_back({"split1", pr.first});
    outs.push_back({"split2", pr.second});
    auto pp = m.SplitByPlane(vec3(1, 0, 0), 0.0);
    outs.push_back({"splitplane1", pp.first});
  }
  if (m.NumTri() <= 64) {
    outs.push_back({"minksum", m.MinkowskiSum(Manifold::Cube(vec3(0.1), true))});
    outs.push_back({"minkdiff", m.MinkowskiDifference(Manifold::Cube(vec3(0.1), true))});
  }
  if (bad) {
    auto parts = m.Decompose();
    for (auto& p : parts) outs.push_back({"decompose", p});
  }
  for (auto& kv : outs) {
    const Manifold& r = kv.second;
    if (bad) {
      if (r.Status() == Manifold::Error::NoError) {
        v.clause = std::string("error_lost_by:") + kv.first;
        return v;
      }
      if (r.Status() != err) {
        v.clause = std::string("error_changed_by:") + kv.first + ":" + std::to_string((int)r.Status());
        return v;
      }
      if (!r.IsEmpty() || r.NumTri() != 0) {
        v.clause = std::string("error_result_not_empty:") + kv.first;
        return v;
      }
    } else {
      MeshGL64 gr = r.GetMeshGL64();
      std::string c2 = check_manifold_invariant(r, gr);
      if (!c2.empty()) {
        std::string full = std::string("after_") + kv.first + ":" + c2;
        if (collect) {
          collect->insert(full);
        } else if (!tolerated || !tolerated->count(full)) {
          v.clause = full;
          return v;
        }
      }
    }
  }
  // queries must be total as well
  (void)m.Volume();
  (void)m.SurfaceArea();
  (void)m.BoundingBox();
  (void)m.Genus();
  (void)m.NumDegenerateTris();
  (void)m.Slice(0.0);
  (void)m.Project();
  (void)m.MinGap(cube, 1.0);
  (void)m.RayCast(vec3(-5, 0.01, 0.02), vec3(5, 0.01, 0.02));
  (void)m.WindingNumber({vec3(0.01, 0.02, 0.03)});
  return v;
}

template <class MeshT>
MeshT narrow(const MeshGL64& g);
template <>
MeshGL64 narrow<MeshGL64>(const MeshGL64& g) {
  return g;
}
template <>
MeshGL narrow<MeshGL>(const MeshGL64& g) {
  MeshGL o;
  o.numProp = (uint32_t)g.numProp;
  o.tolerance = (float)g.tolerance;
  o.vertProperties.assign(g.vertProperties.begin(), g.vertProperties.end());
  o.triVerts.assign(g.triVerts.begin(), g.triVerts.end());
  o.mergeFromVert.assign(g.mergeFromVert.begin(), g.mergeFromVert.end());
  o.mergeToVert.assign(g.mergeToVert.begin(), g.mergeToVert.end());
  o.runIndex.assign(g.runIndex.begin(), g.runIndex.end());
  o.runOriginalID = g.runOriginalID;
  o.runTransform.assign(g.runTransform.begin(), g.runTransform.end());
  o.runFlags = g.runFlags;
  o.faceID.assign(g.faceID.begin(), g.faceID.end());
  o.halfedgeTangent.assign(g.halfedgeTangent.begin(), g.halfedgeTangent.end());
  return o;
}

std::string job_c09(const Args& a) {
  SimSetup s = sim_setup(a);
  JArr viol;
  std::map<std::string, int> fired, statuses;
  long tested = 0, notApplied = 0, usable = 0, rejected = 0;
  size_t total = 0;
  SimOutcome out = run_simulated(s, [&]() {
    const StoredMesh base = SimStore::store(menu_object((int)a.i("obj", 0)).GetMeshGL64());
    const StoredMesh stale = SimStore::store(menu_object((int)a.i("stale", 1)).GetMeshGL64());
    std::set<std::string> tolerated;
    {
      Manifold clean(SimStore::load(base));
      consume(clean, nullptr, &tolerated);
    }
    std::vector<std::vector<Fault>> cases;
    if (a.has("faults")) {
      cases.push_back(parse_faults(a.s("faults")));
      total = 1;
    } else {
      if (a.s("set", "full") == "pairs") {
        auto all = enumerate_pairs(base);
        total = all.size();
        size_t from = (size_t)a.u("from", 0), to = std::min<size_t>(all.size(), (size_t)a.u("to", all.size()));
        for (size_t i = from; i < to; i++) cases.push_back(all[i]);
      } else {
        auto all = a.s("set", "full") == "smoke" ? enumerate_smoke(base) : enumerate_faults(base);
        total = all.size();
        size_t from = (size_t)a.u("from", 0), to = std::min<size_t>(all.size(), (size_t)a.u("to", all.size()));
        for (size_t i = from; i < to; i++) cases.push_back({all[i]});
      }
    }
    const bool p32 = a.i("precision", 64) == 32;
    const bool premerge = a.i("premerge", 0) != 0;
    for (auto& fl : cases) {
      StoredMesh sm = base;
      bool any = false;
      std::string text;
      for (auto& f : fl) {
        bool ok = SimStore::apply(sm, f, &stale);
        any = any || ok;
        if (ok) fired[f.kind]++;
        text += (text.empty() ? "" : ";") + f.text();
      }
      if (!any) {
        notApplied++;
        continue;
      }
      tested++;
      MeshGL64 g = SimStore::load(sm);
      if (premerge) {
        // MeshGL::Merge() is the operation a caller runs on a mesh of unknown provenance before importing it:
        // it takes the same malformed structures and must return normally too
        if (p32) {
          MeshGL g32 = narrow<MeshGL>(g);
          (void)g32.Merge();
          (void)Manifold(g32).Status();
        } else {
          MeshGL64 gm = g;
          (void)gm.Merge();
          (void)Manifold(gm).Status();
        }
      }
      Manifold m = p32 ? Manifold(narrow<MeshGL>(g)) : Manifold(g);
      Verdict v = consume(m, &tolerated);
      statuses[std::to_string(v.status)]++;
      if (v.status == 0)
        usable++;
      else
        rejected++;
      if (!v.clause.empty()) viol.raw(JObj().str("faults", text).str("clause", v.clause).i64("status", v.status).done());
    }
  });
  if (out.exception) viol.raw(JObj().str("faults", a.s("faults", "range")).str("clause", "exception:" + out.what).i64("status", -1).done());
  JObj f, st;
  for (auto& kv : fired) f.i64(kv.first, kv.second);
  for (auto& kv : statuses) st.i64(kv.first, kv.second);
  JObj j;
  j.i64("tested", tested).i64("not_applied", notApplied).i64("usable", usable).i64("rejected", rejected).u64("total", total);
  j.raw("fired", f.done()).raw("statuses", st.done()).raw("viol", viol.done()).raw("sim", outcome_json(out));
  return j.done();
}

// ---------------------------------------------------------------- OBJ streams
std::string job_c09obj(const Args& a) {
  SimSetup s = sim_setup(a);
  JArr viol;
  long tested = 0, usable = 0, rejected = 0;
  size_t total = 0;
  uint64_t shortReads = 0, eofFired = 0, errFired = 0;
  const std::string kind = a.s("kind", "eof");
  SimOutcome out = run_simulated(s, [&]() {
    Manifold src = menu_object((int)a.i("obj", 0));
    std::string text;
    {
      SimStreambuf wb;
      wb.shortOps = a.i("shortw", 0);
      wb.rng = Rng(a.u("ioseed", 1));
      std::ostream os(&wb);
      src.WriteOBJ(os);
      text = wb.data;
    }
    if (a.has("text")) {  // hand-written adversarial texts
      int which = (int)a.i("text");
      const char* T[] = {"v 0 0 0\nv 1 0 0\nv 0 1 0\nv 0 0 1\nf 99999999999999 1 2\nf 1 2 3\nf 1 3 4\nf 2 4 3\n",
                         "v 0 0 0\nv 1 0 0\nv 0 1 0\nv 0 0 1\nf 1 3 2\nf 1 2 4\nf 1 4 3\nf 2 3 4\n",
                         "v 1e400 0 0\nv 1 0 0\nv 0 1 0\nv 0 0 1\nf 1 3 2\nf 1 2 4\nf 1 4 3\nf 2 3 4\n",
                         "f 0 0 0\nf 1 2 3\n", "v nan nan nan\n", "# tolerance = 1e999\nv 0 0 0\n", "f 1 2 3\nf 1 2 3\nf 1 2 3\nf 3 2 1\n"};
      text = T[((which % 7) + 7) % 7];
    }
    total = text.size();
    int plainStatus;
    size_t plainTri;
    {
      std::istringstream is(text);
      Manifold pm = Manifold::ReadOBJ(is);
      plainStatus = (int)pm.Status();
      plainTri = pm.NumTri();
    }
    long from = a.i("from", 0), to = std::min<long>((long)text.size() + 1, a.i("to", (long)text.size() + 1));
    if (kind == "short" || kind == "crlf" || kind == "plain") {
      from = 0;
      to = 1;
    }
    for (long k = from; k < to; k++) {
      const int nbits = kind == "flip" ? 8 : 1;
      for (int bit = 0; bit < nbits; bit++) {
        SimStreambuf rb;
        rb.data = text;
        rb.rng = Rng(a.u("ioseed", 1) + k);
        if (kind == "eof") rb.eofAt = k;
        if (kind == "error") rb.errorAt = k;
        if (kind == "flip" && k < (long)rb.data.size()) rb.data[k] ^= (char)(1 << bit);
        if (kind == "short") rb.shortOps = true;
        if (kind == "crlf") {
          std::string t2;
          for (char c : text) {
            if (c == '\n') t2 += '\r';
            t2 += c;
          }
          rb.data = t2;
        }
        std::istream is(&rb);
        is.exceptions(std::ios::goodbit);
        Manifold m = Manifold::ReadOBJ(is);
        tested++;
        shortReads += rb.shortReads;
        eofFired += rb.eofFired;
        errFired += rb.errFired;
        MeshGL64 g = m.GetMeshGL64();
        std::string cl = check_manifold_invariant(m, g);
        if (m.Status() == Manifold::Error::NoError)
          usable++;
        else
          rejected++;
        if (!cl.empty()) viol.raw(JObj().str("faults", kind + "@" + std::to_string(k) + "b" + std::to_string(bit)).str("clause", "import_result:" + cl).i64("status", (int)m.Status()).done());
        if ((kind == "short" || kind == "crlf" || kind == "plain") && !a.has("text")) {
          // fault-free behaviours must give what a plain in-memory read gives
          if ((int)m.Status() != plainStatus || m.NumTri() != plainTri)
            viol.raw(JObj().str("faults", kind).str("clause", "legal_stream_behaviour_breaks_roundtrip").i64("status", (int)m.Status()).done());
        }
        // a consuming op on whatever came back
        Manifold r = m + Manifold::Cube();
        if (m.Status() != Manifold::Error::NoError && r.Status() != m.Status())
          viol.raw(JObj().str("faults", kind + "@" + std::to_string(k)).str("clause", "error_lost_by:add").i64("status", (int)m.Status()).done());
      }
    }
  });
  if (out.exception) viol.raw(JObj().str("faults", kind).str("clause", "exception:" + out.what).i64("status", -1).done());
  JObj j;
  j.i64("tested", tested).i64("usable", usable).i64("rejected", rejected).u64("total", total);
  j.u64("short_reads", shortReads).u64("eof_fired", eofFired).u64("err_fired", errFired);
  j.raw("viol", viol.done()).raw("sim", outcome_json(out));
  return j.done();
}

std::string job_c09count(const Args& a) {
  size_t n = 0, bytes = 0, nsmoke = 0, npairs = 0;
  SimSetup s = sim_setup(a);
  run_simulated(s, [&]() {
    Manifold m = menu_object((int)a.i("obj", 0));
    n = enumerate_faults(SimStore::store(m.GetMeshGL64())).size();
    nsmoke = enumerate_smoke(SimStore::store(m.GetMeshGL64())).size();
    npairs = enumerate_pairs(SimStore::store(m.GetMeshGL64())).size();
    std::stringstream ss;
    m.WriteOBJ(ss);
    bytes = ss.str().size();
  });
  return JObj().u64("faults", n).u64("smoke", nsmoke).u64("pairs", npairs).u64("obj_bytes", bytes).i64("menu", kMenuSize).done();
}

}  // namespace

void register_c09() {
  registry()["c09"] = job_c09;
  registry()["c09obj"] = job_c09obj;
  registry()["c09count"] = job_c09count;
}

}  // namespace vh
