#include "jobs.h"
namespace vh {
void register_c09() {}
}  // namespace vh
