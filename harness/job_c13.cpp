// C13: every algorithm of the internal parallel layer, instantiated with
// ExecutionPolicy::Par under simulated schedules, must return exactly what the
// sequential standard algorithm returns; the lock-free containers must behave
// like their sequential specification under every explored interleaving of
// 2-3 simulated client threads with a sync point before every atomic step.
#include <algorithm>
#include <numeric>
#include <set>
#include <unordered_map>

#include "disjoint_sets.h"
#include "hashtable.h"
#include "jobs.h"
#include "parallel.h"
#include "vec.h"

namespace vh {
namespace {
using namespace manifold;

struct KT {
  int key;
  int tag;
  bool operator==(const KT& o) const { return key == o.key && tag == o.tag; }
};
struct KeyLess {
  bool operator()(const KT& a, const KT& b) const { return a.key < b.key; }
};
struct AbsSum {
  int operator()(int a, int b) const { return abs(a) + abs(b); }
};
// Composition of affine maps x -> m*x + c modulo a prime: associative, NOT
// commutative (identity {1, 0}). A scan that joins partial results in the
// wrong order gives a different answer.
struct Aff {
  uint32_t m, c;
  bool operator==(const Aff& o) const { return m == o.m && c == o.c; }
};
struct Compose {
  Aff operator()(const Aff& a, const Aff& b) const {
    const uint64_t P = 65521;
    return {(uint32_t)((uint64_t)a.m * b.m % P), (uint32_t)(((uint64_t)a.c * b.m + b.c) % P)};
  }
};
// "last non-zero" : associative, not commutative, identity 0.
struct LastNonZero {
  int operator()(int a, int b) const { return b != 0 ? b : a; }
};

template <class V>
std::string first_diff(const V& a, const V& b) {
  if (a.size() != b.size()) return "size " + std::to_string(a.size()) + " vs " + std::to_string(b.size());
  for (size_t i = 0; i < a.size(); i++)
    if (!(a[i] == b[i])) return "index " + std::to_string(i);
  return "";
}

template <class T>
std::vector<T> gen_ints(Rng& r, size_t n, int dist) {
  std::vector<T> v(n);
  for (size_t i = 0; i < n; i++) {
    uint64_t x = r.next();
    switch (dist) {
      case 0: v[i] = (T)x; break;                       // full range incl. negatives
      case 1: v[i] = (T)(x % 7); break;                 // heavy duplication
      case 2: v[i] = (T)((int64_t)(x % 2001) - 1000); break;  // small signed
      case 3: v[i] = (T)(i); break;                     // already sorted
      case 4: v[i] = (T)(n - i); break;                 // reversed
      default: v[i] = (T)((x % 3 == 0) ? (T)(x >> 7) : (T)(x % 50)); break;
    }
  }
  return v;
}

bool g_hasNeg = false;
size_t g_maxRun = 0;

template <class T>
std::string sort_case(Rng& r, size_t n, int dist) {
  std::vector<T> a = gen_ints<T>(r, n, dist), b = a;
  for (auto& x : a)
    if (x < 0) g_hasNeg = true;
  manifold::stable_sort(ExecutionPolicy::Par, a.begin(), a.end());
  std::stable_sort(b.begin(), b.end());
  return first_diff(a, b);
}

// Runs one named case; returns "" or a mismatch description.
std::string run_case(const std::string& c, size_t n, uint64_t dseed, int dist) {
  Rng r(dseed);
  const auto Par = ExecutionPolicy::Par;
  if (c == "sort_i32") return sort_case<int32_t>(r, n, dist);
  if (c == "sort_u32") return sort_case<uint32_t>(r, n, dist);
  if (c == "sort_i64") return sort_case<int64_t>(r, n, dist);
  if (c == "sort_u64") return sort_case<uint64_t>(r, n, dist);
  if (c == "sort_i16") return sort_case<int16_t>(r, n, dist);
  if (c == "sort_u8") return sort_case<uint8_t>(r, n, dist);
  if (c == "sort_size_t") return sort_case<size_t>(r, n, dist);
  if (c == "sort_cmp" || c == "sort_cmp_desc") {
    std::vector<KT> a(n);
    for (size_t i = 0; i < n; i++) a[i] = {(int)(r.next() % (dist == 1 ? 5 : 1000)) - 500, (int)i};
    std::vector<KT> b = a;
    if (c == "sort_cmp") {
      manifold::stable_sort(Par, a.begin(), a.end(), KeyLess());
      std::stable_sort(b.begin(), b.end(), KeyLess());
    } else {
      auto gt = [](const KT& x, const KT& y) { return x.key > y.key; };
      manifold::stable_sort(Par, a.begin(), a.end(), gt);
      std::stable_sort(b.begin(), b.end(), gt);
    }
    return first_diff(a, b);
  }
  if (c == "sort_double") {
    std::vector<double> a(n);
    for (auto& x : a) x = r.uni(-5, 5) * (r.below(4) == 0 ? 0 : 1);
    std::vector<double> b = a;
    manifold::stable_sort(Par, a.begin(), a.end());
    std::stable_sort(b.begin(), b.end());
    return first_diff(a, b);
  }
  if (c == "sort_vec_int") {  // Vec<int> iterators (pointers) -> radix path as used by the library
    Vec<int> a(n);
    std::vector<int> b(n);
    for (size_t i = 0; i < n; i++) b[i] = a[i] = (int)(r.next() % 100000) - (dist == 0 ? 50000 : 0);
    if (dist == 0) g_hasNeg = true;
    manifold::stable_sort(a.begin(), a.end());  // autoPolicy
    std::stable_sort(b.begin(), b.end());
    std::vector<int> av(a.begin(), a.end());
    return first_diff(av, b);
  }
  std::vector<int> in(n);
  for (auto& x : in) x = (dist == 1) ? (int)(r.next() % 7) : (int)(r.next() % 2001) - 1000;
  if (c == "for_each") {
    std::vector<int> a(n, 0), b(n, 0);
    manifold::for_each_n(Par, countAt(0), n, [&](int i) { a[i] = in[i] * 3 + 1; });
    for (size_t i = 0; i < n; i++) b[i] = in[i] * 3 + 1;
    return first_diff(a, b);
  }
  if (c == "transform") {
    std::vector<int> a(n), b(n);
    manifold::transform(Par, in.begin(), in.end(), a.begin(), [](int x) { return x * x - 7; });
    std::transform(in.begin(), in.end(), b.begin(), [](int x) { return x * x - 7; });
    return first_diff(a, b);
  }
  if (c == "copy") {
    std::vector<int> a(n), b(n);
    manifold::copy(Par, in.begin(), in.end(), a.begin());
    std::copy(in.begin(), in.end(), b.begin());
    std::string d = first_diff(a, b);
    if (!d.empty()) return d;
    std::vector<int> a2(n);
    manifold::copy_n(Par, in.begin(), n, a2.begin());
    return first_diff(a2, b);
  }
  if (c == "fill") {
    std::vector<int> a(n, 1), b(n, 1);
    manifold::fill(Par, a.begin(), a.end(), 42);
    std::fill(b.begin(), b.end(), 42);
    return first_diff(a, b);
  }
  if (c == "sequence") {
    std::vector<int> a(n, -1), b(n);
    manifold::sequence(Par, a.begin(), a.end());
    std::iota(b.begin(), b.end(), 0);
    return first_diff(a, b);
  }
  if (c == "reduce") {
    std::vector<int64_t> v(in.begin(), in.end());
    int64_t a = manifold::reduce(Par, v.begin(), v.end(), (int64_t)5, std::plus<int64_t>());
    int64_t b = std::accumulate(v.begin(), v.end(), (int64_t)5);
    if (a != b) return "sum";
    auto mx = [](int64_t x, int64_t y) { return std::max(x, y); };
    a = manifold::reduce(Par, v.begin(), v.end(), (int64_t)-100000, mx);
    b = std::accumulate(v.begin(), v.end(), (int64_t)-100000, mx);
    return a == b ? "" : "max";
  }
  if (c == "transform_reduce") {
    int64_t a = manifold::transform_reduce(Par, in.begin(), in.end(), (int64_t)3, std::plus<int64_t>(),
                                           [](int x) { return (int64_t)x * 2 + 1; });
    int64_t b = 3;
    for (int x : in) b += (int64_t)x * 2 + 1;
    return a == b ? "" : "value";
  }
  if (c == "inclusive_scan") {
    std::vector<int> a(n), b(n);
    manifold::inclusive_scan(Par, in.begin(), in.end(), a.begin());
    std::inclusive_scan(in.begin(), in.end(), b.begin());
    return first_diff(a, b);
  }
  if (c == "inclusive_scan_inplace") {
    std::vector<int> a = in, b(n);
    manifold::inclusive_scan(Par, a.begin(), a.end(), a.begin());
    std::inclusive_scan(in.begin(), in.end(), b.begin());
    return first_diff(a, b);
  }
  if (c == "exclusive_scan") {
    std::vector<int> a(n), b(n);
    manifold::exclusive_scan(Par, in.begin(), in.end(), a.begin(), 11);
    std::exclusive_scan(in.begin(), in.end(), b.begin(), 11);
    return first_diff(a, b);
  }
  if (c == "exclusive_scan_abssum") {
    std::vector<int> a(n), b(n);
    manifold::exclusive_scan(Par, in.begin(), in.end(), a.begin(), 4, AbsSum());
    std::exclusive_scan(in.begin(), in.end(), b.begin(), 4, AbsSum());
    return first_diff(a, b);
  }
  if (c == "exclusive_scan_affine") {
    std::vector<Aff> v(n), a(n), b(n);
    for (auto& x : v) x = {1 + (uint32_t)(r.next() % 1000), (uint32_t)(r.next() % 1000)};
    const Aff init{7, 3}, id{1, 0};
    manifold::exclusive_scan(Par, v.begin(), v.end(), a.begin(), init, Compose(), id);
    std::exclusive_scan(v.begin(), v.end(), b.begin(), init, Compose());
    return first_diff(a, b);
  }
  if (c == "exclusive_scan_lastnonzero") {
    std::vector<int> v(n), a(n), b(n);
    for (auto& x : v) x = (r.next() % 3 == 0) ? 1 + (int)(r.next() % 100000) : 0;
    manifold::exclusive_scan(Par, v.begin(), v.end(), a.begin(), 0, LastNonZero(), 0);
    std::exclusive_scan(v.begin(), v.end(), b.begin(), 0, LastNonZero());
    return first_diff(a, b);
  }
  if (c == "exclusive_scan_inplace") {
    std::vector<int> a = in, b(n);
    manifold::exclusive_scan(Par, a.begin(), a.end(), a.begin(), 0);
    std::exclusive_scan(in.begin(), in.end(), b.begin(), 0);
    return first_diff(a, b);
  }
  auto pred = [](int x) { return (x & 3) == 1; };
  if (c == "copy_if") {
    std::vector<int> a(n, -7), b(n, -7);
    auto ea = manifold::copy_if(Par, in.begin(), in.end(), a.begin(), pred);
    auto eb = std::copy_if(in.begin(), in.end(), b.begin(), pred);
    if ((ea - a.begin()) != (eb - b.begin())) return "end";
    return first_diff(a, b);
  }
  if (c == "remove_if") {
    std::vector<int> a = in, b = in;
    auto ea = manifold::remove_if(Par, a.begin(), a.end(), pred);
    auto eb = std::remove_if(b.begin(), b.end(), pred);
    if ((ea - a.begin()) != (eb - b.begin())) return "end";
    a.resize(ea - a.begin());
    b.resize(eb - b.begin());
    return first_diff(a, b);
  }
  if (c == "remove") {
    std::vector<int> a = in, b = in;
    const int val = n ? in[n / 2] : 0;
    auto ea = manifold::remove(Par, a.begin(), a.end(), val);
    auto eb = std::remove(b.begin(), b.end(), val);
    if ((ea - a.begin()) != (eb - b.begin())) return "end";
    a.resize(ea - a.begin());
    b.resize(eb - b.begin());
    return first_diff(a, b);
  }
  if (c == "unique") {
    std::vector<int> s = in;
    std::sort(s.begin(), s.end());
    std::vector<int> a = s, b = s;
    auto ea = manifold::unique(Par, a.begin(), a.end());
    auto eb = std::unique(b.begin(), b.end());
    if ((ea - a.begin()) != (eb - b.begin())) return "end";
    a.resize(ea - a.begin());
    b.resize(eb - b.begin());
    return first_diff(a, b);
  }
  if (c == "count_if") {
    size_t a = manifold::count_if(Par, in.begin(), in.end(), pred);
    size_t b = std::count_if(in.begin(), in.end(), pred);
    return a == b ? "" : "count";
  }
  if (c == "all_of") {
    bool a = manifold::all_of(Par, in.begin(), in.end(), [](int x) { return x > -2000; });
    bool a2 = manifold::all_of(Par, in.begin(), in.end(), [&](int x) { return x != (n ? in[n - 1] : 0) || false; });
    bool b2 = std::all_of(in.begin(), in.end(), [&](int x) { return x != (n ? in[n - 1] : 0) || false; });
    if (!a) return "all_true";
    if (a2 != b2) return "all_false";
    // exactly one element fails the predicate, at a seeded position (a partial result of an early
    // sub-range must survive whatever later sub-ranges the same body is handed)
    if (n > 0) {
      for (int rep = 0; rep < 3; rep++) {
        const size_t pos = rep == 0 ? 0 : (rep == 1 ? n / 3 : (size_t)r.below((uint32_t)n));
        bool a3 = manifold::all_of(Par, countAt(0_uz), countAt(n), [pos](size_t i) { return i != pos; });
        if (a3) return "all_of_missed_false_at_" + std::string(rep == 0 ? "front" : rep == 1 ? "third" : "random");
      }
    }
    return "";
  }
  if (c == "gather" || c == "scatter") {
    std::vector<int> map(n);
    std::iota(map.begin(), map.end(), 0);
    for (size_t i = n; i > 1; i--) std::swap(map[i - 1], map[r.below((uint32_t)i)]);
    std::vector<int> a(n, 0), b(n, 0);
    if (c == "gather") {
      manifold::gather(Par, map.begin(), map.end(), in.begin(), a.begin());
      for (size_t i = 0; i < n; i++) b[i] = in[map[i]];
    } else {
      manifold::scatter(Par, in.begin(), in.end(), map.begin(), a.begin());
      for (size_t i = 0; i < n; i++) b[map[i]] = in[i];
    }
    return first_diff(a, b);
  }
  return "unknown_case";
}

std::string job_c13(const Args& a) {
  SimSetup s = sim_setup(a);
  const std::string c = a.s("case");
  const size_t n = (size_t)a.u("n", 100);
  std::string mism;
  g_hasNeg = false;
  SimOutcome out = run_simulated(s, [&]() { mism = run_case(c, n, a.u("dseed", 1), (int)a.i("dist", 0)); });
  JObj j;
  j.str("case", c).u64("n", n).str("mismatch", mism).boolean("has_neg", g_hasNeg).raw("sim", outcome_json(out));
  return j.done();
}

// ------------------------------------------------------------- containers
struct UFPlan {
  std::vector<std::vector<std::array<int, 3>>> perThread;  // (kind, a, b): 0 unite, 1 find, 2 same
};

struct UFArgs {
  DisjointSets* ds;
  const std::vector<std::array<int, 3>>* ops;
  std::vector<long>* results;
};
void uf_thread(void* p) {
  UFArgs* u = static_cast<UFArgs*>(p);
  for (auto& o : *u->ops) {
    if (o[0] == 0)
      u->results->push_back((long)u->ds->unite(o[1], o[2]));
    else if (o[0] == 1)
      u->results->push_back((long)u->ds->find(o[1]));
    else
      u->results->push_back(u->ds->same(o[1], o[2]) ? 1 : 0);
  }
}

std::string job_c13uf(const Args& a) {
  SimSetup s = sim_setup(a);
  const int nThreads = (int)a.i("threads", 2), nElem = (int)a.i("elems", 8), nOps = (int)a.i("ops", 5);
  Rng r(a.u("dseed", 1));
  std::vector<std::vector<std::array<int, 3>>> plan(nThreads);
  for (int t = 0; t < nThreads; t++)
    for (int i = 0; i < nOps; i++) {
      int k = r.below(10);
      plan[t].push_back({k < 6 ? 0 : (k < 8 ? 1 : 2), (int)r.below(nElem), (int)r.below(nElem)});
    }
  // sequential prelude: trees of some height exist before the threads start (equal-rank roots whose
  // ids differ from the elements the threads name)
  std::vector<std::array<int, 2>> prelude;
  const int shape = (int)a.i("shape", 0);
  if (shape > 0) {
    // a random perfect matching (rank-1 trees of two), for shape 2 matched again (rank-2 trees of four):
    // many roots of equal rank for the threads to merge concurrently
    std::vector<int> perm(nElem);
    std::iota(perm.begin(), perm.end(), 0);
    for (int i = nElem - 1; i > 0; i--) std::swap(perm[i], perm[r.below(i + 1)]);
    for (int i = 0; i + 1 < nElem; i += 2) prelude.push_back({perm[i], perm[i + 1]});
    if (shape > 1)
      for (int i = 0; i + 3 < nElem; i += 4) prelude.push_back({perm[i + r.below(2)], perm[i + 2 + r.below(2)]});
    // a merge workload: most operations join elements of two *different* trees of the prelude
    std::vector<int> pairOf(nElem, -1);
    for (int i = 0; i + 1 < nElem; i += 2) pairOf[perm[i]] = pairOf[perm[i + 1]] = i / 2;
    for (int t = 0; t < nThreads; t++)
      for (auto& o : plan[t]) {
        o[0] = r.below(20) < 17 ? 0 : 1;
        if (o[1] == o[2]) o[2] = (o[1] + 1 + (int)r.below(nElem - 1)) % nElem;
        if (r.below(10) < 8)
          for (int tries = 0; tries < 8 && pairOf[o[1]] == pairOf[o[2]]; tries++) o[2] = (int)r.below(nElem);
        if (o[1] == o[2]) o[2] = (o[1] + 1) % nElem;
      }
  }
  for (int i = 0, n = (int)a.i("prelude", 0); i < n; i++) prelude.push_back({(int)r.below(nElem), (int)r.below(nElem)});
  const std::string planx = a.s("planx", "");
  if (!planx.empty()) {
    // explicit plan: "u0-3,u1-2|u0-1|u3-2" = prelude | thread 0 | thread 1 ...
    prelude.clear();
    plan.clear();
    auto segs = split(planx, '|');
    for (size_t si = 0; si < segs.size(); si++) {
      std::vector<std::array<int, 3>> ops;
      for (auto& tok : split(segs[si], ',')) {
        if (tok.size() < 4) continue;
        auto dash = tok.find('-');
        if (dash == std::string::npos) continue;
        ops.push_back({tok[0] == 'u' ? 0 : (tok[0] == 'f' ? 1 : 2), atoi(tok.substr(1, dash - 1).c_str()), atoi(tok.substr(dash + 1).c_str())});
      }
      if (si == 0)
        for (auto& o : ops) prelude.push_back({o[1], o[2]});
      else
        plan.push_back(ops);
    }
  }
  std::string mism;
  std::string planText;
  if (!prelude.empty()) {
    planText += "P:";
    for (auto& o : prelude) planText += "u" + std::to_string(o[0]) + "-" + std::to_string(o[1]) + " ";
  }
  const int nThreadsEff = (int)plan.size();
  for (int t = 0; t < nThreadsEff; t++) {
    planText += "T" + std::to_string(t) + ":";
    for (auto& o : plan[t]) planText += (o[0] == 0 ? "u" : o[0] == 1 ? "f" : "s") + std::to_string(o[1]) + "-" + std::to_string(o[2]) + " ";
  }
  SimOutcome out = run_simulated(s, [&]() {
    DisjointSets ds(nElem);
    for (auto& o : prelude) ds.unite(o[0], o[1]);
    std::vector<std::vector<long>> res(nThreadsEff);
    std::vector<UFArgs> args(nThreadsEff);
    for (int t = 0; t < nThreadsEff; t++) {
      args[t] = {&ds, &plan[t], &res[t]};
      sim::client(uf_thread, &args[t]);
    }
    sim::join_clients();
    // at quiescence the structure is a forest: following parents from any element reaches a fixed
    // point (checked on the raw parents, before any find() of this thread can repair anything)
    for (int i = 0; i < nElem && mism.empty(); i++) {
      uint32_t x = (uint32_t)i;
      int steps = 0;
      while (ds.parent(x) != x && steps <= nElem) {
        x = ds.parent(x);
        steps++;
      }
      if (steps > nElem) mism = "parent_cycle_at_quiescence(" + std::to_string(i) + ")";
    }
    // sequential spec: naive union of all unite pairs
    std::vector<int> comp(nElem);
    std::iota(comp.begin(), comp.end(), 0);
    auto findN = [&](int x) {
      while (comp[x] != x) x = comp[x];
      return x;
    };
    for (auto& o : prelude) {
      int x = findN(o[0]), y = findN(o[1]);
      if (x != y) comp[x] = y;
    }
    for (auto& th : plan)
      for (auto& o : th)
        if (o[0] == 0) {
          int x = findN(o[1]), y = findN(o[2]);
          if (x != y) comp[x] = y;
        }
    for (int i = 0; i < nElem && mism.empty(); i++)
      for (int k = 0; k < nElem; k++) {
        bool spec = findN(i) == findN(k);
        bool impl = ds.find(i) == ds.find(k);
        if (spec != impl) {
          mism = "final_partition(" + std::to_string(i) + "," + std::to_string(k) + ")";
          break;
        }
        if (ds.same(i, k) != spec) {
          mism = "same(" + std::to_string(i) + "," + std::to_string(k) + ")";
          break;
        }
      }
    // every find/unite result is a member of the caller's final class; a
    // `same` that returned true must be true in the final partition
    for (int t = 0; t < nThreadsEff && mism.empty(); t++)
      for (size_t i = 0; i < plan[t].size(); i++) {
        auto& o = plan[t][i];
        long v = res[t][i];
        if (o[0] == 2) {
          if (v == 1 && findN(o[1]) != findN(o[2])) mism = "same_true_but_disjoint";
        } else {
          if (v < 0 || v >= nElem || findN((int)v) != findN(o[1])) mism = "find_result_outside_class";
        }
      }
    // roots are fixed points and ranks consistent
    for (int i = 0; i < nElem && mism.empty(); i++) {
      size_t root = ds.find(i);
      if (ds.find(root) != root) mism = "root_not_fixed_point";
    }
  });
  JObj j;
  j.str("plan", planText).str("mismatch", mism).raw("sim", outcome_json(out));
  return j.done();
}

struct HTArgs {
  HashTableD<int>* ht;
  const std::vector<std::pair<uint64_t, int>>* ins;
};
void ht_thread(void* p) {
  HTArgs* h = static_cast<HTArgs*>(p);
  for (auto& kv : *h->ins) h->ht->Insert(kv.first, kv.second);
}

std::string job_c13ht(const Args& a) {
  SimSetup s = sim_setup(a);
  const int nThreads = (int)a.i("threads", 2), nOps = (int)a.i("ops", 4);
  const int logSize = (int)a.i("logsize", 3);
  Rng r(a.u("dseed", 1));
  // Keys come from a small set so that threads collide on slots (and sometimes
  // on the same key); the value is a function of the key, so that a key
  // inserted by two threads still has one well-defined value.
  std::vector<std::vector<std::pair<uint64_t, int>>> plan(nThreads);
  for (int t = 0; t < nThreads; t++)
    for (int i = 0; i < nOps; i++) {
      uint64_t k = (uint64_t)r.below((uint32_t)a.i("keys", 6)) * 1000003ull + 17;
      plan[t].push_back({k, (int)(k % 100000) * 3 + 1});
    }
  std::string planText, mism;
  for (int t = 0; t < nThreads; t++) {
    planText += "T" + std::to_string(t) + ":";
    for (auto& kv : plan[t]) planText += std::to_string(kv.first) + "=" + std::to_string(kv.second) + " ";
  }
  bool full = false;
  SimOutcome out = run_simulated(s, [&]() {
    HashTable<int> table((size_t)1 << logSize, (uint32_t)a.i("step", 1));
    HashTableD<int> d = table.D();
    std::vector<HTArgs> args(nThreads);
    for (int t = 0; t < nThreads; t++) {
      args[t] = {&d, &plan[t]};
      sim::client(ht_thread, &args[t]);
    }
    sim::join_clients();
    full = table.Full();
    std::map<uint64_t, std::set<int>> spec;
    for (auto& th : plan)
      for (auto& kv : th) spec[kv.first].insert(kv.second);
    if (!full) {
      for (auto& kv : spec) {
        int v = d[kv.first];
        // the key must be present with one of the inserted values
        bool present = false;
        for (int i = 0; i < d.Size(); i++)
          if (d.KeyAt(i) == kv.first) present = true;
        if (!present) {
          mism = "key_missing:" + std::to_string(kv.first);
          break;
        }
        if (!kv.second.count(v)) {
          mism = "wrong_value:" + std::to_string(kv.first) + "->" + std::to_string(v);
          break;
        }
      }
      // no key stored twice
      std::set<uint64_t> seen;
      for (int i = 0; i < d.Size() && mism.empty(); i++) {
        uint64_t k = d.KeyAt(i);
        if (k == kOpen) continue;
        if (!seen.insert(k).second) mism = "duplicate_key_slot:" + std::to_string(k);
        if (!spec.count(k)) mism = "foreign_key:" + std::to_string(k);
      }
      if (mism.empty() && table.Entries() != spec.size()) mism = "entries_count";
    }
  });
  JObj j;
  j.str("plan", planText).str("mismatch", mism).boolean("full", full).raw("sim", outcome_json(out));
  return j.done();
}

}  // namespace

void register_c13() {
  registry()["c13"] = job_c13;
  registry()["c13uf"] = job_c13uf;
  registry()["c13ht"] = job_c13ht;
}

}  // namespace vh
