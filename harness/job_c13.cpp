#include "jobs.h"
namespace vh {
void register_c13() {}
}  // namespace vh
