#include "jobs.h"
namespace vh {
void register_c03() {}
}  // namespace vh
