// C03: a CSG expression denotes one solid however it is built, shared or
// evaluated. One job = one DAG (leaf ops + expression ops) built (E) eagerly,
// forcing Status() after every node, and (L) lazily under a seeded forcing
// history, twice. Oracle: same Status; same solid (independent solid-angle
// winding number at sample points away from both surfaces + volume within
// area*delta); the two lazy builds bit-identical; declared-equivalent node
// pairs (rewrite rules) denote the same solid.
#include <cmath>

#include "impl.h"
#include "jobs.h"
#include "ops.h"
#include "oracles.h"

namespace vh {
namespace {

struct Tri {
  vec3 a, b, c;
};

std::vector<Tri> tris_of(const MeshGL64& g) {
  std::vector<Tri> t;
  const size_t np = g.numProp;
  for (size_t i = 0; i + 2 < g.triVerts.size(); i += 3) {
    auto P = [&](size_t v) { return vec3(g.vertProperties[v * np], g.vertProperties[v * np + 1], g.vertProperties[v * np + 2]); };
    t.push_back({P(g.triVerts[i]), P(g.triVerts[i + 1]), P(g.triVerts[i + 2])});
  }
  return t;
}

double volume_of(const std::vector<Tri>& t) {
  double v = 0;
  for (auto& x : t) v += la::dot(x.a, la::cross(x.b, x.c)) / 6.0;
  return v;
}
double area_of(const std::vector<Tri>& t) {
  double v = 0;
  for (auto& x : t) v += 0.5 * la::length(la::cross(x.b - x.a, x.c - x.a));
  return v;
}

// Van Oosterom & Strackee solid angle; winding number = sum / 4pi.
double winding(const std::vector<Tri>& t, vec3 p) {
  double w = 0;
  for (auto& x : t) {
    vec3 a = x.a - p, b = x.b - p, c = x.c - p;
    double la_ = la::length(a), lb = la::length(b), lc = la::length(c);
    double num = la::dot(a, la::cross(b, c));
    double den = la_ * lb * lc + la::dot(a, b) * lc + la::dot(b, c) * la_ + la::dot(c, a) * lb;
    w += 2 * std::atan2(num, den);
  }
  return w / (4 * 3.14159265358979323846);
}

double dist_point_tri(vec3 p, const Tri& t) {
  // Ericson, Real-Time Collision Detection: closest point on triangle
  vec3 ab = t.b - t.a, ac = t.c - t.a, ap = p - t.a;
  double d1 = la::dot(ab, ap), d2 = la::dot(ac, ap);
  if (d1 <= 0 && d2 <= 0) return la::length(ap);
  vec3 bp = p - t.b;
  double d3 = la::dot(ab, bp), d4 = la::dot(ac, bp);
  if (d3 >= 0 && d4 <= d3) return la::length(bp);
  double vc = d1 * d4 - d3 * d2;
  if (vc <= 0 && d1 >= 0 && d3 <= 0) return la::length(ap - ab * (d1 / (d1 - d3)));
  vec3 cp = p - t.c;
  double d5 = la::dot(ab, cp), d6 = la::dot(ac, cp);
  if (d6 >= 0 && d5 <= d6) return la::length(cp);
  double vb = d5 * d2 - d1 * d6;
  if (vb <= 0 && d2 >= 0 && d6 <= 0) return la::length(ap - ac * (d2 / (d2 - d6)));
  double va = d3 * d6 - d5 * d4;
  if (va <= 0 && (d4 - d3) >= 0 && (d5 - d6) >= 0) {
    double w = (d4 - d3) / ((d4 - d3) + (d5 - d6));
    return la::length(p - (t.b + (t.c - t.b) * w));
  }
  double denom = 1.0 / (va + vb + vc);
  double v = vb * denom, w = vc * denom;
  return la::length(p - (t.a + ab * v + ac * w));
}

double dist_surface(const std::vector<Tri>& t, vec3 p) {
  double d = 1e300;
  for (auto& x : t) d = std::min(d, dist_point_tri(p, x));
  return d;
}

// "" if A and B denote the same solid, else clause.
std::string solid_agrees(const Manifold& A, const Manifold& B, Rng& r, int nPoints, double* maxVolErr, long* pointsUsed) {
  if (A.Status() != B.Status()) return "status_differs:" + std::to_string((int)A.Status()) + "vs" + std::to_string((int)B.Status());
  if (A.Status() != Manifold::Error::NoError) return "";
  MeshGL64 ga = A.GetMeshGL64(), gb = B.GetMeshGL64();
  auto ta = tris_of(ga), tb = tris_of(gb);
  const double tol = std::max(A.GetTolerance(), B.GetTolerance());
  const double delta = std::max(1000 * tol, 1e-7);
  double va = volume_of(ta), vb = volume_of(tb);
  double bound = 0.5 * (area_of(ta) + area_of(tb)) * delta + 1e-12;
  if (maxVolErr) *maxVolErr = std::max(*maxVolErr, std::abs(va - vb));
  if (std::abs(va - vb) > bound) return "volume_differs";
  if (ta.empty() && tb.empty()) return "";
  Box bb = A.BoundingBox().Union(B.BoundingBox());
  if (!bb.IsFinite()) return "";
  vec3 lo = bb.min - vec3(0.05), hi = bb.max + vec3(0.05);
  for (int i = 0; i < nPoints; i++) {
    vec3 p(r.uni(lo.x, hi.x), r.uni(lo.y, hi.y), r.uni(lo.z, hi.z));
    if (i % 3 == 0 && !ta.empty()) {  // bias: just off a face of A
      const Tri& t = ta[r.below((uint32_t)ta.size())];
      vec3 n = la::cross(t.b - t.a, t.c - t.a);
      double ln = la::length(n);
      if (ln > 0) p = (t.a + t.b + t.c) / 3.0 + n / ln * (r.below(2) ? 1.0 : -1.0) * r.uni(3 * delta, 0.05);
    }
    if (dist_surface(ta, p) <= delta || dist_surface(tb, p) <= delta) continue;
    if (pointsUsed) (*pointsUsed)++;
    long wa = std::lround(winding(ta, p)), wb = std::lround(winding(tb, p));
    if (wa != wb) return "point_classification_differs";
  }
  return "";
}

struct ForceAt {
  int afterStep, node, getter;
};

void force(const Manifold& m, int getter) {
  switch (((getter % 4) + 4) % 4) {
    case 0: (void)m.Status(); break;
    case 1: (void)m.NumTri(); break;
    case 2: (void)m.GetMeshGL64(); break;
    default: (void)m.Volume(); break;
  }
}

std::vector<Manifold> build(const std::vector<Op>& leaves, const std::vector<Op>& dag, const std::vector<ForceAt>& hist, bool eager,
                            size_t* nLeaves) {
  Env e;
  e.capM = 1000;
  e.capX = 1000;
  e.eagerTemps = eager;
  for (auto& op : leaves) exec(e, op);
  if (e.M.empty()) e.pushM(Manifold::Cube());
  for (auto& m : e.M) (void)m.Status();
  *nLeaves = e.M.size();
  for (size_t i = 0; i < dag.size(); i++) {
    exec(e, dag[i]);
    if (eager)
      for (auto& p : e.produced)
        if (!p.isX) (void)e.M[p.idx].Status();
    if (!eager)
      for (auto& f : hist)
        if (f.afterStep == (int)i && !e.M.empty()) force(e.m(f.node), f.getter);
  }
  return e.M;
}

std::string job_c03(const Args& a) {
  SimSetup s = sim_setup(a);
  auto leaves = parse_program(a.s("leaves"));
  auto dag = parse_program(a.s("dag"));
  std::vector<ForceAt> hist;
  for (auto& tok : split(a.s("force", ""), ',')) {
    auto v = split(tok, ':');
    if (v.size() == 3) hist.push_back({atoi(v[0].c_str()), atoi(v[1].c_str()), atoi(v[2].c_str())});
  }
  std::vector<std::pair<int, int>> eq;
  for (auto& tok : split(a.s("eq", ""), ',')) {
    auto v = split(tok, ':');
    if (v.size() == 2) eq.push_back({atoi(v[0].c_str()), atoi(v[1].c_str())});
  }
  JArr viol;
  double maxVolErr = 0;
  long pointsUsed = 0, nodes = 0, compared = 0;
  SimOutcome out = run_simulated(s, [&]() {
    size_t nl = 0;
    Rng r(a.u("pseed", 7));
    const int nPoints = (int)a.i("points", 24);
    auto E = build(leaves, dag, hist, true, &nl);
    Manifold::Impl::meshIDCounter_ = 1;
    auto L1 = build(leaves, dag, hist, false, &nl);
    Manifold::Impl::meshIDCounter_ = 1;
    auto L2 = build(leaves, dag, hist, false, &nl);
    nodes = (long)E.size();
    if (E.size() != L1.size() || L1.size() != L2.size()) {
      viol.raw(JObj().i64("node", -1).str("clause", "node_count_differs").done());
      return;
    }
    // deterministic evaluation: two lazy builds with the same forcing history are bit-identical
    for (size_t i = nl; i < L1.size(); i++) {
      std::string f1 = fp_manifold(L1[i]), f2 = fp_manifold(L2[i]);
      if (f1 != f2) {
        viol.raw(JObj().i64("node", (int64_t)i).str("clause", "same_history_not_bit_identical:" + fp_diff(f1, f2)).done());
        break;
      }
    }
    // lazy vs eager, node by node (later nodes first: the root matters most)
    const bool all = a.i("allnodes", 1);
    for (size_t k = E.size(); k-- > nl;) {
      if (!all && k + 1 != E.size()) break;
      std::string c = solid_agrees(E[k], L1[k], r, nPoints, &maxVolErr, &pointsUsed);
      compared++;
      if (!c.empty()) {
        viol.raw(JObj().i64("node", (int64_t)k).str("clause", "lazy_differs_from_eager:" + c).done());
        break;
      }
    }
    // declared rewrite equivalences, in both builds
    for (auto& pr : eq) {
      size_t i = nl + pr.first, j = nl + pr.second;
      if (i >= E.size() || j >= E.size()) continue;
      std::string c = solid_agrees(E[i], E[j], r, nPoints, &maxVolErr, &pointsUsed);
      if (c.empty()) c = solid_agrees(L1[i], L1[j], r, nPoints, &maxVolErr, &pointsUsed);
      compared += 2;
      if (!c.empty()) {
        viol.raw(JObj().i64("node", (int64_t)i).str("clause", "rewrite_equivalence_broken:" + c).done());
        break;
      }
    }
  });
  if (out.exception) viol.raw(JObj().i64("node", -1).str("clause", "exception:" + out.what).done());
  JObj j;
  j.i64("nodes", nodes).i64("compared", compared).i64("points_used", pointsUsed).num("max_volume_err", maxVolErr);
  j.raw("viol", viol.done()).raw("sim", outcome_json(out));
  return j.done();
}

}  // namespace

void register_c03() { registry()["c03"] = job_c03; }

}  // namespace vh
