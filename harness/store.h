// Seam D: the simulated storage between export and import.
// SimStore keeps an exported MeshGL64 as byte images per field and applies
// explicit fault operations to them. SimStreambuf is a streambuf over a byte
// image with seeded short reads/writes and injectable EOF / error / bit flips.
#pragma once
#include <cstring>
#include <limits>
#include <stdexcept>
#include <streambuf>
#include <string>
#include <vector>

#include "manifold/manifold.h"
#include "util.h"

namespace vh {
using namespace manifold;

enum Field { F_VP, F_TV, F_MF, F_MT, F_RI, F_RO, F_RT, F_RF, F_FI, F_HT, F_COUNT };
static const char* kFieldName[F_COUNT] = {"vertProperties", "triVerts",     "mergeFromVert", "mergeToVert", "runIndex",
                                          "runOriginalID",  "runTransform", "runFlags",      "faceID",      "halfedgeTangent"};
static const size_t kElemSize[F_COUNT] = {8, 8, 8, 8, 8, 4, 8, 1, 8, 8};

struct StoredMesh {
  uint64_t numProp = 3;
  double tolerance = 0;
  std::vector<uint8_t> f[F_COUNT];
  size_t elems(int fi) const { return f[fi].size() / kElemSize[fi]; }
};

struct Fault {
  std::string kind;  // flip truncate tear lose dup mix nan inf neg numprop tol setidx
  int field = 0;
  int64_t a = 0, b = 0, c = 0;
  std::string text() const {
    return kind + ":" + std::to_string(field) + "," + std::to_string(a) + "," + std::to_string(b) + "," + std::to_string(c);
  }
};

inline std::vector<Fault> parse_faults(const std::string& s) {
  std::vector<Fault> out;
  for (auto& tok : split(s, ';')) {
    if (tok.empty() || tok == "-") continue;
    Fault f;
    auto p = tok.find(':');
    f.kind = tok.substr(0, p);
    if (p != std::string::npos) {
      auto v = split(tok.substr(p + 1), ',');
      if (v.size() > 0) f.field = atoi(v[0].c_str());
      if (v.size() > 1) f.a = strtoll(v[1].c_str(), nullptr, 10);
      if (v.size() > 2) f.b = strtoll(v[2].c_str(), nullptr, 10);
      if (v.size() > 3) f.c = strtoll(v[3].c_str(), nullptr, 10);
    }
    out.push_back(f);
  }
  return out;
}

struct SimStore {
  template <class V>
  static std::vector<uint8_t> bytes(const V& v) {
    std::vector<uint8_t> b(v.size() * sizeof(v[0]));
    if (!v.empty()) memcpy(b.data(), v.data(), b.size());
    return b;
  }
  template <class V>
  static void unbytes(const std::vector<uint8_t>& b, V& v) {
    v.resize(b.size() / sizeof(v[0]));
    if (!v.empty()) memcpy(v.data(), b.data(), v.size() * sizeof(v[0]));
  }
  static StoredMesh store(const MeshGL64& g) {
    StoredMesh s;
    s.numProp = g.numProp;
    s.tolerance = g.tolerance;
    s.f[F_VP] = bytes(g.vertProperties);
    s.f[F_TV] = bytes(g.triVerts);
    s.f[F_MF] = bytes(g.mergeFromVert);
    s.f[F_MT] = bytes(g.mergeToVert);
    s.f[F_RI] = bytes(g.runIndex);
    s.f[F_RO] = bytes(g.runOriginalID);
    s.f[F_RT] = bytes(g.runTransform);
    s.f[F_RF] = bytes(g.runFlags);
    s.f[F_FI] = bytes(g.faceID);
    s.f[F_HT] = bytes(g.halfedgeTangent);
    return s;
  }
  static MeshGL64 load(const StoredMesh& s) {
    MeshGL64 g;
    g.numProp = s.numProp;
    g.tolerance = s.tolerance;
    unbytes(s.f[F_VP], g.vertProperties);
    unbytes(s.f[F_TV], g.triVerts);
    unbytes(s.f[F_MF], g.mergeFromVert);
    unbytes(s.f[F_MT], g.mergeToVert);
    unbytes(s.f[F_RI], g.runIndex);
    unbytes(s.f[F_RO], g.runOriginalID);
    unbytes(s.f[F_RT], g.runTransform);
    unbytes(s.f[F_RF], g.runFlags);
    unbytes(s.f[F_FI], g.faceID);
    unbytes(s.f[F_HT], g.halfedgeTangent);
    return g;
  }
  static MeshGL64 roundtrip(const MeshGL64& g) { return load(store(g)); }

  // Applies one fault; `stale` is an older stored version (for tear/mix), may
  // be null. Returns false if the fault does not apply (e.g. empty field) so
  // that "fired" counts are honest.
  static bool apply(StoredMesh& s, const Fault& ft, const StoredMesh* stale) {
    const int fi = ((ft.field % F_COUNT) + F_COUNT) % F_COUNT;
    auto& b = s.f[fi];
    const size_t es = kElemSize[fi], n = b.size() / es;
    auto idx = [&](int64_t a) { return (size_t)(((a % (int64_t)n) + (int64_t)n) % (int64_t)n); };
    if (ft.kind == "flip") {
      if (n == 0) return false;
      size_t e = idx(ft.a);
      size_t bit = (size_t)(((ft.b % (int64_t)(es * 8)) + es * 8) % (es * 8));
      b[e * es + bit / 8] ^= (uint8_t)(1u << (bit % 8));
      return true;
    }
    if (ft.kind == "truncate") {
      if (n == 0) return false;
      size_t k = idx(ft.a);  // new length in elements, < n
      b.resize(k * es);
      return true;
    }
    if (ft.kind == "truncbytes") {  // short write not aligned to elements
      if (b.empty()) return false;
      b.resize((size_t)(((ft.a % (int64_t)b.size()) + b.size()) % b.size()));
      return true;
    }
    if (ft.kind == "tear") {  // first k elements are the new version, rest stale/zero
      if (n == 0) return false;
      size_t k = idx(ft.a);
      for (size_t i = k * es; i < b.size(); i++)
        b[i] = (stale && i < stale->f[fi].size() && ft.b % 2 == 0) ? stale->f[fi][i] : 0;
      return true;
    }
    if (ft.kind == "lose") {
      if (b.empty()) return false;
      b.clear();
      return true;
    }
    if (ft.kind == "dup") {  // a range of elements written twice
      if (n == 0) return false;
      size_t st = idx(ft.a), len = 1 + (size_t)(((ft.b % 8) + 8) % 8);
      if (st + len > n) len = n - st;
      std::vector<uint8_t> seg(b.begin() + st * es, b.begin() + (st + len) * es);
      b.insert(b.begin() + (st + len) * es, seg.begin(), seg.end());
      return true;
    }
    if (ft.kind == "mix") {  // this field comes from another stored version
      if (!stale) return false;
      b = stale->f[fi];
      return true;
    }
    if (ft.kind == "nan" || ft.kind == "inf" || ft.kind == "neg" || ft.kind == "huge") {
      if (n == 0) return false;
      size_t e = idx(ft.a);
      if (fi == F_VP || fi == F_RT || fi == F_HT) {
        double v = ft.kind == "nan" ? std::numeric_limits<double>::quiet_NaN()
                   : ft.kind == "inf" ? std::numeric_limits<double>::infinity()
                   : ft.kind == "neg" ? -1.0
                                      : 1e300;
        memcpy(&b[e * es], &v, 8);
      } else if (es == 8) {
        uint64_t v = ft.kind == "neg" ? (uint64_t)-1 : ft.kind == "huge" ? (uint64_t)1 << 40 : (uint64_t)0x7fffffffffffffffull;
        memcpy(&b[e * es], &v, 8);
      } else if (es == 4) {
        uint32_t v = 0xffffffffu;
        memcpy(&b[e * es], &v, 4);
      } else
        b[e] = 0xff;
      return true;
    }
    if (ft.kind == "setidx") {  // set an index element to a chosen small value
      if (n == 0 || es != 8) return false;
      size_t e = idx(ft.a);
      uint64_t v = (uint64_t)ft.b;
      memcpy(&b[e * es], &v, 8);
      return true;
    }
    if (ft.kind == "numprop") {
      s.numProp = (uint64_t)ft.a;
      return true;
    }
    if (ft.kind == "tol") {
      const double vals[6] = {-1.0, std::numeric_limits<double>::quiet_NaN(), std::numeric_limits<double>::infinity(), 1e300, 0.0, -0.0};
      s.tolerance = vals[((ft.a % 6) + 6) % 6];
      return true;
    }
    return false;
  }
};

// streambuf over an in-memory byte image with simulated I/O behaviour.
class SimStreambuf : public std::streambuf {
 public:
  std::string data;       // bytes to read / bytes written
  size_t pos = 0;         // read position
  Rng rng{1};
  bool shortOps = false;  // seeded short reads/writes (legal behaviour)
  long eofAt = -1;        // deliver EOF at this byte offset
  long errorAt = -1;      // underflow throws at this byte offset (stream goes bad)
  long writeErrorAt = -1;
  uint64_t shortReads = 0, reads = 0, writes = 0, eofFired = 0, errFired = 0;

 protected:
  char buf_[64];
  int_type underflow() override {
    reads++;
    size_t limit = data.size();
    if (eofAt >= 0 && (size_t)eofAt < limit) limit = (size_t)eofAt;
    if (errorAt >= 0 && pos >= (size_t)errorAt) {
      errFired++;
      throw std::ios_base::failure("simulated EIO");
    }
    if (pos >= limit) {
      if (eofAt >= 0) eofFired++;
      return traits_type::eof();
    }
    size_t n = sizeof buf_;
    if (shortOps) {
      n = 1 + rng.below(16);
      shortReads++;
    }
    if (pos + n > limit) n = limit - pos;
    if (errorAt >= 0 && pos + n > (size_t)errorAt) n = (size_t)errorAt - pos;
    if (n == 0) {
      errFired++;
      throw std::ios_base::failure("simulated EIO");
    }
    memcpy(buf_, data.data() + pos, n);
    pos += n;
    setg(buf_, buf_, buf_ + n);
    return traits_type::to_int_type(buf_[0]);
  }
  int_type overflow(int_type c) override {
    writes++;
    if (writeErrorAt >= 0 && data.size() >= (size_t)writeErrorAt) return traits_type::eof();
    if (c != traits_type::eof()) data.push_back((char)c);
    return c;
  }
  std::streamsize xsputn(const char* s, std::streamsize n) override {
    writes++;
    std::streamsize k = n;
    if (shortOps && n > 1) {
      // deliver in two pieces; both succeed (a short write that is retried)
      k = 1 + (std::streamsize)rng.below((uint32_t)n);
    }
    for (std::streamsize i = 0; i < n; i++) {
      if (writeErrorAt >= 0 && data.size() >= (size_t)writeErrorAt) return i;
      data.push_back(s[i]);
    }
    (void)k;
    return n;
  }
};

}  // namespace vh
