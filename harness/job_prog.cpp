// Job "prog": run one program (op list) as one simulated run and report the
// fingerprint of everything it materialises, plus the per-object oracles that
// several properties share (C01 invariant, C05 frozen-value model, C08 round
// trip).
#include <set>

#include "jobs.h"
#include "ops.h"
#include "oracles.h"
#include "c08.h"

namespace vh {
namespace {

// Observation with a seeded getter order: the fingerprint text is canonical,
// only the order in which the library is asked varies.
std::string observe(const Manifold& m, Rng* order, MeshGL64* outMesh = nullptr) {
  if (!order) return fp_manifold(m, outMesh);
  int perm[6] = {0, 1, 2, 3, 4, 5};
  for (int i = 5; i > 0; i--) std::swap(perm[i], perm[order->below(i + 1)]);
  std::string part[6];
  MeshGL64 g;
  for (int k = 0; k < 6; k++) switch (perm[k]) {
      case 0: part[0] = "M st" + std::to_string((int)m.Status()); break;
      case 1:
        part[1] = " nv" + std::to_string(m.NumVert()) + " ne" + std::to_string(m.NumEdge()) + " nt" +
                  std::to_string(m.NumTri()) + " nq" + std::to_string(m.NumProp()) + " npv" +
                  std::to_string(m.NumPropVert()) + " g" + std::to_string(m.Genus());
        break;
      case 2: part[2] = " oid" + std::to_string(m.OriginalID()); break;
      case 3: {
        Box b = m.BoundingBox();
        part[3] = " bb" + hex(fnv(&b, sizeof b));
        break;
      }
      case 4: {
        double e = m.GetEpsilon(), t = m.GetTolerance();
        part[4] = " eps" + hex(fnv(&e, sizeof e)) + " gt" + hex(fnv(&t, sizeof t));
        break;
      }
      case 5:
        g = m.GetMeshGL64();
        part[5] = fp_mesh(g);
        break;
    }
  if (outMesh) *outMesh = std::move(g);
  std::string s;
  for (auto& p : part) s += p;
  return s;
}

std::string observeX(const CrossSection& c, Rng* order) {
  if (!order) return fp_cross(c);
  // vary which getter forces materialisation first
  switch (order->below(4)) {
    case 0: (void)c.GetTolerance(); break;
    case 1: (void)c.Area(); break;
    case 2: (void)c.NumVert(); break;
    default: break;
  }
  return fp_cross(c);
}

std::string job_prog(const Args& a) {
  SimSetup s = sim_setup(a);
  const std::vector<Op> ops = parse_program(a.s("prog"));
  const bool lazy = a.i("lazy", 0), c01 = a.i("c01", 0), c05 = a.i("c05", 0), c08 = a.i("c08", 0);
  const size_t maxTri = (size_t)a.u("maxtri", 60000);
  const bool wantFp = a.i("fp", 1);
  JArr steps, viol, finals;
  uint64_t nObjects = 0, nTris = 0, nDerivedSuppressed = 0;
  // Root-cause reporting: an object that violated C01/C08 taints everything
  // derived from it; violations of tainted objects are counted, not reported.
  std::set<uint64_t> tainted;
  std::map<std::string, int> opCount;

  SimOutcome out = run_simulated(s, [&]() {
    Env e;
    e.capM = (size_t)a.u("capM", 12);
    e.capX = (size_t)a.u("capX", 8);
    Rng orderRng(a.u("obsseed", 12345));
    Rng* ord = c05 ? &orderRng : nullptr;
    std::vector<std::string> birthM, birthX, howM, howX;
    if (c05) {
      e.onErase = [&](bool isX, size_t k) {
        auto& b = isX ? birthX : birthM;
        auto& h = isX ? howX : howM;
        if (k < b.size()) {
          b.erase(b.begin() + k);
          h.erase(h.begin() + k);
        }
      };
    }
    auto addViol = [&](const char* prop, size_t step, const std::string& opText, const std::string& clause) {
      viol.raw(JObj().str("prop", prop).i64("step", (int64_t)step).str("op", opText).str("clause", clause).done());
    };
    for (size_t i = 0; i < ops.size(); i++) {
      const Op& op = ops[i];
      // frozen value of the source of a copy/assign, taken before the op
      std::string srcFrozen;
      bool isCopy = false;
      if (c05 && (op.name == "copy" || op.name == "assign" || op.name == "moveout") && !e.M.empty()) {
        size_t src = e.mi(op.name == "assign" ? op.arg(1) : op.arg(0));
        if (src < birthM.size()) srcFrozen = birthM[src], isCopy = true;
      }
      if (c05 && (op.name == "xcopy" || op.name == "xassign") && !e.X.empty()) {
        size_t src = e.xi(op.name == "xassign" ? op.arg(1) : op.arg(0));
        if (src < birthX.size()) srcFrozen = birthX[src], isCopy = true;
      }
      exec(e, op);
      opCount[op.name]++;
      JArr fps, ids, usedIds;
      bool derivedFromTainted = false;
      for (auto u : e.used) {
        usedIds.i64((int64_t)u);
        if (tainted.count(u)) derivedFromTainted = true;
      }
      if (derivedFromTainted)
        for (auto& p : e.produced) tainted.insert(p.isX ? e.idX[p.idx] : e.idM[p.idx]);
      for (auto& p : e.produced) ids.i64((int64_t)(p.isX ? e.idX[p.idx] : e.idM[p.idx]));
      if (!lazy) {
        // materialise and observe everything this step produced
        std::vector<size_t> tooBigM;
        for (auto& p : e.produced) {
          std::string f;
          if (p.isX) {
            f = observeX(e.X[p.idx], ord);
            if (c05) {
              birthX.resize(e.X.size());
              howX.resize(e.X.size());
              birthX[p.idx] = f;
              howX[p.idx] = op.text();
              if (isCopy && f != srcFrozen)
                addViol("C05", i, op.text(), "copy_differs_from_source:" + fp_diff(srcFrozen, f));
            }
          } else {
            MeshGL64 g;
            const Manifold& m = e.M[p.idx];
            f = observe(m, ord, &g);
            nObjects++;
            nTris += g.triVerts.size() / 3;
            if (c01) {
              std::string cl = check_manifold_invariant(m, g);
              if (!cl.empty()) {
                if (derivedFromTainted)
                  nDerivedSuppressed++;
                else
                  addViol("C01", i, op.text(), cl);
                tainted.insert(e.idM[p.idx]);
              }
            }
            if (c08 && m.Status() == Manifold::Error::NoError && m.NumTri() > 0) {
              std::string cl = c08_check(m, g, a);
              if (!cl.empty()) {
                if (derivedFromTainted)
                  nDerivedSuppressed++;
                else
                  addViol("C08", i, op.text(), cl);
                tainted.insert(e.idM[p.idx]);
              }
            }
            if (c05) {
              birthM.resize(e.M.size());
              howM.resize(e.M.size());
              birthM[p.idx] = f;
              howM[p.idx] = op.text();
              if (isCopy && f != srcFrozen)
                addViol("C05", i, op.text(), "copy_differs_from_source:" + fp_diff(srcFrozen, f));
            }
            if (g.triVerts.size() / 3 > maxTri) tooBigM.push_back(p.idx);
          }
          if (wantFp) fps.str(f);
        }
        // oversized results leave the pool (highest index first)
        std::sort(tooBigM.rbegin(), tooBigM.rend());
        for (size_t k : tooBigM) {
          e.eraseM(k);
        }
        int64_t salt = (int64_t)i;
        for (auto v : op.a) salt += v;
        e.evict(salt);
        if (c05) {
          // every live object must still show its birth value
          for (size_t j = 0; j < e.M.size() && j < birthM.size(); j++) {
            std::string f = observe(e.M[j], ord);
            if (f != birthM[j]) {
              addViol("C05", i, op.text(), "manifold_changed:born=" + howM[j] + ":field=" + fp_diff(birthM[j], f));
              birthM[j] = f;
            }
          }
          for (size_t j = 0; j < e.X.size() && j < birthX.size(); j++) {
            std::string f = observeX(e.X[j], ord);
            if (f != birthX[j]) {
              addViol("C05", i, op.text(), "cross_section_changed:born=" + howX[j] + ":field=" + fp_diff(birthX[j], f));
              birthX[j] = f;
            }
          }
        }
      } else {
        int64_t salt = (int64_t)i;
        for (auto v : op.a) salt += v;
        e.evict(salt);
      }
      if (wantFp) steps.raw(JObj().str("op", op.text()).str("note", e.note).raw("fp", fps.done()).raw("ids", ids.done()).raw("used", usedIds.done()).done());
    }
    if (lazy) {
      for (size_t j = 0; j < e.M.size(); j++) {
        MeshGL64 g;
        std::string f = observe(e.M[j], nullptr, &g);
        nObjects++;
        nTris += g.triVerts.size() / 3;
        if (c01) {
          std::string cl = check_manifold_invariant(e.M[j], g);
          if (!cl.empty()) addViol("C01", ops.size(), "final:" + std::to_string(j), cl);
        }
        finals.str(f);
      }
      for (size_t j = 0; j < e.X.size(); j++) finals.str(fp_cross(e.X[j]));
    }
  });
  if (out.exception) viol.raw(JObj().str("prop", "C09").i64("step", -1).str("op", "").str("clause", "exception:" + out.what).done());
  JObj oc;
  for (auto& kv : opCount) oc.i64(kv.first, kv.second);
  JObj j;
  j.raw("steps", steps.done()).raw("final", finals.done()).raw("viol", viol.done());
  j.u64("objects", nObjects).u64("tris", nTris).u64("derived_suppressed", nDerivedSuppressed).raw("ops", oc.done());
  j.raw("sim", outcome_json(out));
  return j.done();
}

}  // namespace

void register_prog() { registry()["prog"] = job_prog; }

}  // namespace vh
