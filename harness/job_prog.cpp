// Job "prog": run one program (op list) as one simulated run and report the
// fingerprint of everything it materialises, plus the per-object oracles that
// several properties share (C01 invariant, C05 frozen-value model, C08 round
// trip).
#include <set>

#include "jobs.h"
#include "ops.h"
#include "oracles.h"
#include "c08.h"
#include "impl.h"

namespace vh {
namespace {

// Observation with a seeded getter order: the fingerprint text is canonical,
// only the order in which the library is asked varies.
std::string observe(const Manifold& m, Rng* order, MeshGL64* outMesh = nullptr) {
  if (!order) return fp_manifold(m, outMesh);
  int perm[6] = {0, 1, 2, 3, 4, 5};
  for (int i = 5; i > 0; i--) std::swap(perm[i], perm[order->below(i + 1)]);
  std::string part[6];
  MeshGL64 g;
  for (int k = 0; k < 6; k++) switch (perm[k]) {
      case 0: part[0] = "M st" + std::to_string((int)m.Status()); break;
      case 1:
        part[1] = " nv" + std::to_string(m.NumVert()) + " ne" + std::to_string(m.NumEdge()) + " nt" +
                  std::to_string(m.NumTri()) + " nq" + std::to_string(m.NumProp()) + " npv" +
                  std::to_string(m.NumPropVert()) + " g" + std::to_string(m.Genus());
        break;
      case 2: part[2] = " oid" + std::to_string(m.OriginalID()); break;
      case 3: {
        Box b = m.BoundingBox();
        part[3] = " bb" + hex(fnv(&b, sizeof b));
        break;
      }
      case 4: {
        double e = m.GetEpsilon(), t = m.GetTolerance();
        part[4] = " eps" + hex(fnv(&e, sizeof e)) + " gt" + hex(fnv(&t, sizeof t));
        break;
      }
      case 5:
        g = m.GetMeshGL64();
        part[5] = fp_mesh(g);
        break;
    }
  if (outMesh) *outMesh = std::move(g);
  std::string s;
  for (auto& p : part) s += p;
  return s;
}

// One getter is asked first, before anything else can materialise a pending
// lazy transform, then again after ToPolygons(): a value that differs means
// lazy state is observable (*leak names the getter).
std::string observeX(const CrossSection& c, Rng* order, std::string* leak = nullptr) {
  if (!order) return fp_cross(c);
  const int which = (int)order->below(4);
  auto read = [&]() -> std::string {
    switch (which) {
      case 0: {
        double t = c.GetTolerance();
        return hex(fnv(&t, sizeof t));
      }
      case 1: {
        double a = c.Area();
        return hex(fnv(&a, sizeof a));
      }
      case 2: return std::to_string(c.NumVert());
      default: {
        Rect r = c.Bounds();
        return hex(fnv(&r, sizeof r));
      }
    }
  };
  const std::string before = read();
  std::string f = fp_cross(c);  // forces ToPolygons()
  const std::string after = read();
  if (before != after && leak) {
    static const char* names[4] = {"GetTolerance", "Area", "NumVert", "Bounds"};
    *leak = names[which];
  }
  return f;
}

std::string job_prog(const Args& a) {
  SimSetup s = sim_setup(a);
  const std::vector<Op> ops = parse_program(a.s("prog"));
  const bool lazy = a.i("lazy", 0), c01 = a.i("c01", 0), c05 = a.i("c05", 0), c08 = a.i("c08", 0);
  const size_t maxTri = (size_t)a.u("maxtri", 60000);
  const bool wantFp = a.i("fp", 1);
  JArr steps, viol, finals;
  uint64_t nObjects = 0, nTris = 0, nDerivedSuppressed = 0, nC01PreconditionSkipped = 0;
  // Root-cause reporting: an object that violated C01/C08 taints everything
  // derived from it; violations of tainted objects are counted, not reported.
  std::set<uint64_t> tainted;
  std::map<std::string, int> opCount;

  SimOutcome out = run_simulated(s, [&]() {
    Env e;
    e.capM = (size_t)a.u("capM", 12);
    e.capX = (size_t)a.u("capX", 8);
    Rng orderRng(a.u("obsseed", 12345));
    Rng* ord = c05 ? &orderRng : nullptr;
    std::vector<std::string> birthM, birthX, howM, howX;
    if (c05) {
      e.onErase = [&](bool isX, size_t k) {
        auto& b = isX ? birthX : birthM;
        auto& h = isX ? howX : howM;
        if (k < b.size()) {
          b.erase(b.begin() + k);
          h.erase(h.begin() + k);
        }
      };
    }
    auto addViol = [&](const char* prop, size_t step, const std::string& opText, const std::string& clause) {
      viol.raw(JObj().str("prop", prop).i64("step", (int64_t)step).str("op", opText).str("clause", clause).done());
    };
    for (size_t i = 0; i < ops.size(); i++) {
      const Op& op = ops[i];
      // frozen value of the source of a copy/assign, taken before the op
      std::string srcFrozen;
      bool isCopy = false;
      if (c05 && (op.name == "copy" || op.name == "assign" || op.name == "moveout") && !e.M.empty()) {
        size_t src = e.mi(op.name == "assign" ? op.arg(1) : op.arg(0));
        if (src < birthM.size()) srcFrozen = birthM[src], isCopy = true;
      }
      if (c05 && (op.name == "xcopy" || op.name == "xassign") && !e.X.empty()) {
        size_t src = e.xi(op.name == "xassign" ? op.arg(1) : op.arg(0));
        if (src < birthX.size()) srcFrozen = birthX[src], isCopy = true;
      }
      exec(e, op);
      opCount[op.name]++;
      JArr fps, ids, usedIds;
      bool derivedFromTainted = false;
      for (auto u : e.used) {
        usedIds.i64((int64_t)u);
        if (tainted.count(u)) derivedFromTainted = true;
      }
      if (derivedFromTainted)
        for (auto& p : e.produced) tainted.insert(p.isX ? e.idX[p.idx] : e.idM[p.idx]);
      for (auto& p : e.produced) ids.i64((int64_t)(p.isX ? e.idX[p.idx] : e.idM[p.idx]));
      if (!lazy) {
        // materialise and observe everything this step produced
        std::vector<size_t> tooBigM;
        for (auto& p : e.produced) {
          std::string f;
          if (p.isX) {
            std::string leak;
            f = observeX(e.X[p.idx], ord, &leak);
            if (c05 && !leak.empty()) addViol("C05", i, op.text(), "lazy_state_observable:" + leak);
            if (c05) {
              birthX.resize(e.X.size());
              howX.resize(e.X.size());
              birthX[p.idx] = f;
              howX[p.idx] = op.text();
              if (isCopy && f != srcFrozen)
                addViol("C05", i, op.text(), "copy_differs_from_source:" + fp_diff(srcFrozen, f));
            }
          } else {
            MeshGL64 g;
            const Manifold& m = e.M[p.idx];
            f = observe(m, ord, &g);
            nObjects++;
            nTris += g.triVerts.size() / 3;
            if (c01) {
              std::string cl = check_manifold_invariant(m, g);
              if (!cl.empty()) {
                if (derivedFromTainted)
                  nDerivedSuppressed++;
                else
                  addViol("C01", i, op.text(), cl);
                tainted.insert(e.idM[p.idx]);
              }
            }
            // C08 is about Manifolds, i.e. objects that satisfy C01; one that does not (C01 reports it)
            // is outside its premise.
            if (c08 && m.Status() == Manifold::Error::NoError && m.NumTri() > 0 && !check_manifold_invariant(m, g).empty()) {
              nC01PreconditionSkipped++;
              tainted.insert(e.idM[p.idx]);
            } else if (c08 && m.Status() == Manifold::Error::NoError && m.NumTri() > 0) {
              std::string cl = c08_check(m, g, a);
              if (!cl.empty()) {
                if (derivedFromTainted)
                  nDerivedSuppressed++;
                else
                  addViol("C08", i, op.text(), cl);
                tainted.insert(e.idM[p.idx]);
              }
            }
            if (c05) {
              birthM.resize(e.M.size());
              howM.resize(e.M.size());
              birthM[p.idx] = f;
              howM[p.idx] = op.text();
              if (isCopy && f != srcFrozen)
                addViol("C05", i, op.text(), "copy_differs_from_source:" + fp_diff(srcFrozen, f));
            }
            if (g.triVerts.size() / 3 > maxTri) tooBigM.push_back(p.idx);
          }
          if (wantFp) fps.str(f);
        }
        // oversized results leave the pool (highest index first)
        std::sort(tooBigM.rbegin(), tooBigM.rend());
        for (size_t k : tooBigM) {
          e.eraseM(k);
        }
        int64_t salt = (int64_t)i;
        for (auto v : op.a) salt += v;
        e.evict(salt);
        if (c05) {
          // every live object must still show its birth value
          for (size_t j = 0; j < e.M.size() && j < birthM.size(); j++) {
            std::string f = observe(e.M[j], ord);
            if (f != birthM[j]) {
              addViol("C05", i, op.text(), "manifold_changed:born=" + howM[j] + ":field=" + fp_diff(birthM[j], f));
              birthM[j] = f;
            }
          }
          for (size_t j = 0; j < e.X.size() && j < birthX.size(); j++) {
            std::string f = observeX(e.X[j], ord);
            if (f != birthX[j]) {
              addViol("C05", i, op.text(), "cross_section_changed:born=" + howX[j] + ":field=" + fp_diff(birthX[j], f));
              birthX[j] = f;
            }
          }
        }
      } else {
        int64_t salt = (int64_t)i;
        for (auto v : op.a) salt += v;
        e.evict(salt);
      }
      if (wantFp) steps.raw(JObj().str("op", op.text()).str("note", e.note).raw("fp", fps.done()).raw("ids", ids.done()).raw("used", usedIds.done()).done());
    }
    if (lazy) {
      for (size_t j = 0; j < e.M.size(); j++) {
        MeshGL64 g;
        std::string f = observe(e.M[j], nullptr, &g);
        nObjects++;
        nTris += g.triVerts.size() / 3;
        if (c01) {
          std::string cl = check_manifold_invariant(e.M[j], g);
          if (!cl.empty()) addViol("C01", ops.size(), "final:" + std::to_string(j), cl);
        }
        finals.str(f);
      }
      for (size_t j = 0; j < e.X.size(); j++) finals.str(fp_cross(e.X[j]));
    }
  });
  if (out.exception) viol.raw(JObj().str("prop", "C09").i64("step", -1).str("op", "").str("clause", "exception:" + out.what).done());
  JObj oc;
  for (auto& kv : opCount) oc.i64(kv.first, kv.second);
  JObj j;
  j.raw("steps", steps.done()).raw("final", finals.done()).raw("viol", viol.done());
  j.u64("objects", nObjects).u64("tris", nTris).u64("derived_suppressed", nDerivedSuppressed).u64("c08_skipped_not_manifold", nC01PreconditionSkipped).raw("ops", oc.done());
  j.raw("sim", outcome_json(out));
  return j.done();
}

}  // namespace

void register_prog() { registry()["prog"] = job_prog; }

}  // namespace vh

// ---------------------------------------------------------------------------
// Job "c05defer": lazy state must be unobservable. The same history is run
// twice: pass A observes every object the moment it is born (which
// materialises pending lazy transforms), pass B observes nothing until the
// end. (1) In pass B every copy / assignment made between never-observed
// objects must equal its source when both are finally observed. (2) Every
// CrossSection must show the same final observation in both passes (for
// Manifolds only the C03 guarantee "same solid" exists across different
// forcing histories, so they are compared in (1) only).
namespace vh {
namespace {

struct CopyRel {
  bool isX;
  size_t dst, src;
  size_t step;
};

// Observation-history independent summary of a CrossSection: transforms that are composed lazily and
// applied once round differently from transforms applied one by one, so coordinates are compared
// within rounding, not bit for bit.
struct XSummary {
  double area, tol, b[4];
  bool finite;
};
XSummary xsummary(const CrossSection& c) {
  XSummary s;
  s.area = c.Area();
  s.tol = c.GetTolerance();
  Rect r = c.Bounds();
  s.finite = r.IsFinite();
  s.b[0] = r.min.x;
  s.b[1] = r.min.y;
  s.b[2] = r.max.x;
  s.b[3] = r.max.y;
  return s;
}
std::string xsummary_diff(const XSummary& a, const XSummary& b) {
  auto close = [](double x, double y, double rel) { return std::abs(x - y) <= rel * (1e-9 + std::abs(x) + std::abs(y)); };
  if (!close(a.area, b.area, 1e-7)) return "area";
  if (a.finite != b.finite) return "bounds";
  if (a.finite)
    for (int k = 0; k < 4; k++)
      if (!close(a.b[k], b.b[k], 1e-7) && std::abs(a.b[k] - b.b[k]) > 1e-9) return "bounds";
  // The tolerance of a derived CrossSection is scaled once from the composed pending transform, by
  // design (cross_section.cpp GetPaths): it legitimately differs between a history that materialised
  // an intermediate and one that did not, so it is not compared across passes.
  return "";
}

// What C03 promises about one expression under two forcing histories: same Status, same solid.
struct MSummary {
  int status;
  bool empty;
  double volume, area;
};
MSummary msummary(const Manifold& m) {
  MSummary s;
  s.status = (int)m.Status();
  s.empty = m.IsEmpty();
  s.volume = m.Volume();
  s.area = m.SurfaceArea();
  return s;
}
std::string msummary_diff(const MSummary& a, const MSummary& b) {
  if (a.status != b.status) return "status";
  // IsEmpty() is not compared: X - (Y + X) is the empty solid, and whether zero-thickness sheets of
  // coincident faces are left over depends on the tree shape the evaluator chose (not general position).
  if (!std::isfinite(a.volume) || !std::isfinite(b.volume)) return (std::isfinite(a.volume) != std::isfinite(b.volume)) ? "volume_finiteness" : "";
  const double scale = std::abs(a.volume) + std::abs(b.volume) + 1e-3 * std::pow(std::max(a.area, b.area), 1.5) + 1e-9;
  if (std::abs(a.volume - b.volume) > 1e-3 * scale) return "volume";
  return "";
}

std::string hexd(double v) {
  char b[40];
  snprintf(b, sizeof b, "%.9g", v);
  return b;
}

struct DeferPass {
  std::vector<MSummary> sumM;
  std::vector<bool> hugeM;  // derived from an overflowing scale
  std::vector<double> xsettolTol;  // GetTolerance() of every result of xsettol, in op order
  std::vector<XSummary> sumX;
  std::vector<std::string> finalX, finalM;
  std::vector<std::string> copyViol;
};

DeferPass defer_pass(const std::vector<Op>& ops, bool observeAtBirth) {
  DeferPass out;
  Env e;
  e.capM = 100000;
  e.capX = 100000;
  std::vector<CopyRel> rel;
  std::vector<size_t> xsettolIdx;
  std::set<uint64_t> hugeIds;
  for (size_t i = 0; i < ops.size(); i++) {
    const Op& op = ops[i];
    if (op.name == "moveout") continue;
    if (op.name == "drop") {
      // destroy the object (in the deferred pass: without it ever having been evaluated) but keep the
      // slot, so that both passes index the same objects
      if (!e.M.empty()) {
        const size_t d = e.mi(op.arg(0));
        e.M[d] = Manifold();
        std::vector<CopyRel> keep;
        for (auto& q : rel)
          if (!(!q.isX && (q.dst == d || q.src == d))) keep.push_back(q);
        rel = keep;
      }
      continue;
    }
    CopyRel r{false, (size_t)-1, (size_t)-1, i};
    bool isRel = false;
    if ((op.name == "copy" || op.name == "assign") && !e.M.empty()) {
      r.isX = false;
      r.src = e.mi(op.name == "assign" ? op.arg(1) : op.arg(0));
      r.dst = op.name == "assign" ? e.mi(op.arg(0)) : e.M.size();
      isRel = true;
    }
    if ((op.name == "xcopy" || op.name == "xassign") && !e.X.empty()) {
      r.isX = true;
      r.src = e.xi(op.name == "xassign" ? op.arg(1) : op.arg(0));
      r.dst = op.name == "xassign" ? e.xi(op.arg(0)) : e.X.size();
      isRel = true;
    }
    if (isRel && op.name == "xassign") {
      // the slot no longer holds the SetTolerance result
      std::vector<size_t> keepIdx;
      for (size_t k : xsettolIdx)
        if (k != r.dst) keepIdx.push_back(k);
      xsettolIdx = keepIdx;
    }
    if (isRel && (op.name == "assign" || op.name == "xassign")) {
      // the slot is overwritten: relations through it end here
      std::vector<CopyRel> keep;
      for (auto& q : rel)
        if (!(q.isX == r.isX && (q.dst == r.dst || q.src == r.dst))) keep.push_back(q);
      rel = keep;
    }
    exec(e, op);
    {
      // Results whose coordinates overflowed are outside the premise of the cross-pass comparison:
      // the library empties an overflowed mesh (NoError) when the transform is applied, but reports
      // NonFiniteVertex when two pending transforms compose to a non-finite matrix first.
      bool fromHuge = op.name == "hugescale";
      for (auto id : e.used)
        if (hugeIds.count(id)) fromHuge = true;
      if (fromHuge)
        for (auto& p : e.produced)
          if (!p.isX) hugeIds.insert(e.idM[p.idx]);
    }
    if (op.name == "xsettol")
      for (auto& p : e.produced)
        if (p.isX) xsettolIdx.push_back(p.idx);
    if (isRel && r.dst != r.src) rel.push_back(r);
    if (observeAtBirth)
      for (auto& p : e.produced) {
        if (p.isX)
          (void)fp_cross(e.X[p.idx]);
        else
          (void)fp_manifold(e.M[p.idx]);
      }
  }
  if (!observeAtBirth) {
    // the copy first, then its source
    for (auto& q : rel) {
      std::string a, b;
      if (q.isX) {
        if (q.dst >= e.X.size() || q.src >= e.X.size()) continue;
        a = fp_cross(e.X[q.dst]);
        b = fp_cross(e.X[q.src]);
      } else {
        if (q.dst >= e.M.size() || q.src >= e.M.size()) continue;
        a = fp_manifold(e.M[q.dst]);
        b = fp_manifold(e.M[q.src]);
      }
      if (a != b) out.copyViol.push_back(ops[q.step].text() + "|" + fp_diff(b, a));
    }
  }
  for (auto& x : e.X) {
    out.finalX.push_back(fp_cross(x));
    out.sumX.push_back(xsummary(x));
  }
  for (auto& m : e.M) {
    out.finalM.push_back(fp_manifold(m));
    out.sumM.push_back(msummary(m));
  }
  for (size_t i = 0; i < e.M.size(); i++) out.hugeM.push_back(hugeIds.count(e.idM[i]) > 0);
  for (size_t k : xsettolIdx)
    if (k < e.X.size()) out.xsettolTol.push_back(e.X[k].GetTolerance());
  return out;
}

std::string job_c05defer(const Args& a) {
  SimSetup s = sim_setup(a);
  const std::vector<Op> ops = parse_program(a.s("prog"));
  JArr viol;
  size_t nX = 0, nM = 0, nRel = 0, crossPassDiffs = 0;
  SimOutcome out = run_simulated(s, [&]() {
    DeferPass A = defer_pass(ops, true);
    Manifold::Impl::meshIDCounter_ = 1;
    DeferPass B = defer_pass(ops, false);
    nX = B.finalX.size();
    nM = B.finalM.size();
    for (auto& v : B.copyViol) {
      auto p = v.find('|');
      viol.raw(JObj().str("prop", "C05").i64("step", -1).str("op", v.substr(0, p)).str("clause", "unobserved_copy_differs_from_source:" + v.substr(p + 1)).done());
    }
    // (2) is informational only: a derived object is a function of the *rounded* coordinates of its
    // source, transforms composed lazily round differently from transforms applied one by one, and
    // Simplify/Offset/Decompose are discontinuous in those coordinates -- so even area may differ
    // between the two histories without anything observable about an existing object having changed.
    if (A.finalX.size() == B.finalX.size())
      for (size_t i = 0; i < A.finalX.size(); i++)
        if (A.finalX[i] != B.finalX[i] && !xsummary_diff(A.sumX[i], B.sumX[i]).empty()) crossPassDiffs++;
    // (3) Manifolds across the two passes: the same expression under two forcing histories (everything
    // forced at birth / nothing forced, temporaries destroyed unevaluated) must have the same Status and
    // denote the same solid.
    if (A.sumM.size() == B.sumM.size())
      for (size_t i = 0; i < A.sumM.size(); i++) {
        const std::string d = msummary_diff(A.sumM[i], B.sumM[i]);
        if (!d.empty() && !A.hugeM[i] && !B.hugeM[i])
          viol.raw(JObj().str("prop", "C05").i64("step", -1).str("op", "object:" + std::to_string(i)).str("clause", "unobserved_history_changes_solid:" + d).done());
      }
    // (4) SetTolerance(t) states the tolerance of its result (max(t, geometric epsilon)); whether the
    // source still had a pending transform when it was called must not show in it.
    if (A.xsettolTol.size() == B.xsettolTol.size())
      for (size_t i = 0; i < A.xsettolTol.size(); i++) {
        const double x = A.xsettolTol[i], y = B.xsettolTol[i];
        if (std::abs(x - y) > 1e-6 * (std::abs(x) + std::abs(y)))
          viol.raw(JObj().str("prop", "C05").i64("step", -1).str("op", "xsettol").str("clause", "lazy_state_observable:SetTolerance_result_tolerance").str("detail", "result " + std::to_string(i) + ": observed history " + hexd(x) + ", unobserved " + hexd(y)).done());
      }
  });
  if (out.exception) viol.raw(JObj().str("prop", "C09").i64("step", -1).str("op", "").str("clause", "exception:" + out.what).done());
  JObj j;
  j.raw("steps", "[]").raw("final", "[]").raw("viol", viol.done());
  j.u64("objects", nX + nM).u64("tris", 0).u64("derived_suppressed", 0).u64("cross_pass_diffs_informational", crossPassDiffs).raw("ops", "{}");
  j.raw("sim", outcome_json(out));
  (void)nRel;
  return j.done();
}

}  // namespace

void register_c05defer() { registry()["c05defer"] = job_c05defer; }

}  // namespace vh
