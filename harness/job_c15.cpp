#include "jobs.h"
namespace vh {
void register_c15() {}
}  // namespace vh
