// C15: cancellation is all-or-nothing at every check; progress is monotone and
// ends at 1. One job = one scenario (setup ops, lazily built expression ops,
// observed operation) x one schedule seed; inside it the cancel flag is set by
// the k-th IsCancelled check itself (hook H1) for every requested k.
#include <chrono>
#include <set>

#include "execution_impl.h"
#include "impl.h"
#include "jobs.h"
#include "ops.h"
#include "oracles.h"
#include "verif_hooks.h"

namespace vh {
namespace {

struct Scenario {
  std::vector<Op> setup, expr;
  std::vector<Op> prior;  // expression evaluated through the SAME context before the observed op (context reuse)
  Op obs;
};

// Solid-level summary of an intermediate (mesh-level data legitimately depends on forcing order, see C03).
struct Solid {
  int status = 0;
  double v[8] = {0, 0, 0, 0, 0, 0, 0, 0};
  bool finite = true;
};
Solid solid_of(const Manifold& m) {
  Solid s;
  s.status = (int)m.Status();
  if (m.Status() != Manifold::Error::NoError) return s;
  s.v[0] = m.Volume();
  s.v[1] = m.SurfaceArea();
  Box b = m.BoundingBox();
  s.finite = b.IsFinite();
  if (s.finite) {
    for (int k = 0; k < 3; k++) {
      s.v[2 + k] = b.min[k];
      s.v[5 + k] = b.max[k];
    }
  }
  return s;
}
bool solid_equal(const Solid& a, const Solid& b) {
  if (a.status != b.status || a.finite != b.finite) return false;
  for (int k = 0; k < 8; k++)
    if (!(std::abs(a.v[k] - b.v[k]) <= 1e-7 * (1 + std::abs(a.v[k]) + std::abs(b.v[k])))) return false;
  return true;
}

// Progress() as a concurrent observer would see it at this instant: sampled at
// every sync point the context's counters pass (hook H3), i.e. wherever the
// simulator could switch to a polling thread.
ExecutionContext* g_sampleCtx = nullptr;
std::string* g_sampleClause = nullptr;
long g_sampleCount = 0;
void sampling_sync(int site) {
  if (g_sampleCtx && site == manifold::verif::kCtxCounter) {
    const double p = g_sampleCtx->Progress();
    g_sampleCount++;
    if (!(p >= 0.0 && p <= 1.0) && g_sampleClause && g_sampleClause->empty())
      *g_sampleClause = "progress_out_of_range_for_concurrent_observer:" + std::to_string(p);
  }
  sim::sync_point(site);
}

struct RunResult {
  std::string fp;            // fingerprint of the observed result
  int status = -1;
  bool empty = false;
  std::vector<std::string> operandFp;  // phase-1 objects after the call
  std::string stickyClause;  // "" or clause broken by the sticky/cancel checks
  std::string rebuildFp;     // expression rebuilt with a fresh context
  Solid rebuildSolid, resultSolid;
  double finalProgress = -1;
  bool ctxCancelled = false;
  std::vector<Solid> intermediates;   // phase-2 objects forced WITHOUT a context after the observed call
  std::vector<char> wasForced;        // ... and whether the expression itself had forced them before the call
  std::string observerClause;         // from the sync-point sampler
};

Manifold observe_with(Env& e, const Op& obs, ExecutionContext& ctx, bool* ok) {
  *ok = true;
  const std::string& n = obs.name;
  const Manifold subject = e.M.back();
  auto A = [&](size_t i, int64_t d = 0) { return obs.arg(i, d); };
  if (n == "status") {
    Manifold w = subject.WithContext(ctx);
    (void)w.Status();
    return w;
  }
  if (n == "refine") return subject.WithContext(ctx).Refine(2 + (int)((A(0) % 3 + 3) % 3));
  if (n == "refinelen") return subject.WithContext(ctx).RefineToLength(U(A(0), .08, .4));
  if (n == "refinetol") return subject.WithContext(ctx).RefineToTolerance(U(A(0), .002, .05));
  if (n == "hull") return subject.WithContext(ctx).Hull();
  if (n == "minksum") return subject.WithContext(ctx).MinkowskiSum(e.m(A(0)));
  if (n == "minkdiff") return subject.WithContext(ctx).MinkowskiDifference(e.m(A(0)));
  if (n == "frommesh") return ctx.FromMeshGL(subject.GetMeshGL64());
  if (n == "frommesh32") return ctx.FromMeshGL(subject.GetMeshGL());
  if (n == "smooth") {
    MeshGL64 g = subject.GetMeshGL64();
    std::vector<Smoothness> sharp;
    if (A(0) % 2 && g.triVerts.size() >= 3) sharp.push_back({(size_t)(A(1) % (int64_t)g.triVerts.size()), U(A(2), 0, 1)});
    return ctx.Smooth(g, sharp);
  }
  if (n == "levelset") return ctx.LevelSet(sdf_kind(A(2), A(0)), Box(vec3(-1), vec3(1)), U(A(1), .04, .25), 0, -1, A(3, 1) % 2);
  *ok = false;
  return Manifold();
}

bool single_evaluation(const std::string& obs) { return obs != "minksum" && obs != "minkdiff"; }

struct ProgressTrace {
  double last = -1;
  long samples = 0;
  std::string clause;
  bool monotone = true;
  void sample(int done, int total) {
    double p = total == 0 ? 1.0 : (double)done / total;
    samples++;
    if (!(p >= 0.0 && p <= 1.0) && clause.empty()) clause = "progress_out_of_range:" + std::to_string(p);
    if (monotone && p < last && clause.empty()) clause = "progress_decreased:" + std::to_string(last) + "->" + std::to_string(p);
    last = p;
  }
};

// Runs the scenario once. k<=0: no cancel (counts checks).
RunResult run_once(const Scenario& sc, const SimSetup& s, long k, long* nChecks, ProgressTrace* pt, SimOutcome* outc,
                   const std::vector<std::string>* refOperands) {
  RunResult rr;
  SimOutcome out = run_simulated(s, [&]() {
    Env e;
    e.capM = 64;
    e.capX = 64;
    for (auto& op : sc.setup) exec(e, op);
    if (e.M.empty()) e.pushM(Manifold::Cube());
    for (auto& m : e.M) (void)m.Status();  // operands are evaluated before the observed call
    const size_t nOperands = e.M.size(), nOperandsX = e.X.size();
    ExecutionContext ctx;
    // context reuse: an earlier, uncancelled evaluation through the same context (before the ID
    // counter snapshot, so that the rebuild below is numbered like the reference run)
    if (!sc.prior.empty()) {
      Env pe;
      pe.capM = 64;
      for (auto& op : sc.prior) exec(pe, op);
      if (!pe.M.empty()) (void)pe.M.back().WithContext(ctx).Status();
    }
    const uint32_t idCounterBefore = Manifold::Impl::meshIDCounter_;
    // Handles that are copies of one another share one lazy node: forcing any of them evaluates it
    // for all of them. group[i] identifies the node behind pool object i.
    std::vector<uint64_t> group(e.M.size());
    uint64_t nextGroup = 1;
    for (auto& gq : group) gq = nextGroup++;
    std::set<uint64_t> forcedGroups;
    for (auto& op : sc.expr) {
      size_t src = (size_t)-1, dst = (size_t)-1;
      if (!e.M.empty() && (op.name == "copy" || op.name == "assign")) {
        src = e.mi(op.name == "assign" ? op.arg(1) : op.arg(0));
        if (op.name == "assign") dst = e.mi(op.arg(0));
      }
      size_t forcedIdx = (!e.M.empty() && op.name == "force") ? e.mi(op.arg(0)) : (size_t)-1;
      exec(e, op);
      while (group.size() < e.M.size()) group.push_back(op.name == "copy" && src < group.size() ? group[src] : nextGroup++);
      if (dst != (size_t)-1 && src < group.size()) group[dst] = group[src];
      if (forcedIdx < group.size()) forcedGroups.insert(group[forcedIdx]);
    }
    g_sampleCtx = &ctx;
    g_sampleClause = &rr.observerClause;
    auto savedSync = manifold::verif::hooks.syncPoint;
    manifold::verif::hooks.syncPoint = sampling_sync;
    g_probe = CancelProbe();
    g_probe.target = ctx.impl_.get();
    g_probe.countdown = k;
    if (pt) {
      pt->monotone = single_evaluation(sc.obs.name);
      g_probe.observer = [pt](int d, int t) { pt->sample(d, t); };
    }
    install_cancel_probe();
    bool ok;
    Manifold res = observe_with(e, sc.obs, ctx, &ok);
    rr.status = (int)res.Status();
    if (nChecks) *nChecks = g_probe.checks;
    remove_cancel_probe();
    manifold::verif::hooks.syncPoint = savedSync;
    g_sampleCtx = nullptr;
    g_sampleClause = nullptr;
    rr.finalProgress = ctx.Progress();
    rr.ctxCancelled = ctx.Cancelled();
    rr.fp = fp_manifold(res);
    rr.resultSolid = solid_of(res);
    rr.empty = res.IsEmpty() && res.NumVert() == 0 && res.NumTri() == 0;
    if (res.Status() == Manifold::Error::Cancelled) {
      // stays Cancelled on re-query and through deriving ops
      if (res.Status() != Manifold::Error::Cancelled) rr.stickyClause = "status_not_sticky";
      if (!rr.empty) rr.stickyClause = "cancelled_result_not_empty";
      if (res.Translate(vec3(1, 0, 0)).Status() != Manifold::Error::Cancelled) rr.stickyClause = "translate_loses_cancelled";
      if ((res + Manifold::Cube()).Status() != Manifold::Error::Cancelled) rr.stickyClause = "boolean_loses_cancelled";
      if (res.Refine(2).Status() != Manifold::Error::Cancelled) rr.stickyClause = "refine_loses_cancelled";
      // a cancelled context short-circuits every later evaluation through it
      if (ctx.Cancelled()) {
        Manifold other = (Manifold::Cube() + Manifold::Sphere(0.6, 8).Translate(vec3(0.3, 0, 0))).WithContext(ctx);
        if (other.Status() != Manifold::Error::Cancelled) rr.stickyClause = "cancelled_ctx_does_not_short_circuit";
      } else {
        rr.stickyClause = "result_cancelled_but_ctx_not";
      }
    }
    // operands untouched
    for (size_t i = 0; i < nOperands; i++) rr.operandFp.push_back(fp_manifold(e.M[i]));
    // Intermediates of the expression (they share op nodes with the observed tree): forced now,
    // WITHOUT a context, each must be Cancelled or denote what it denotes in the uncancelled run --
    // never a partially reduced tree.
    for (size_t i = nOperands; i < e.M.size(); i++) {
      rr.intermediates.push_back(solid_of(e.M[i]));
      rr.wasForced.push_back(i < group.size() && forcedGroups.count(group[i]) ? 1 : 0);
    }
    // rebuild from the operands with a fresh context
    if (k > 0) {
      e.M.resize(nOperands);
      e.idM.resize(nOperands);
      e.X.resize(nOperandsX);
      e.idX.resize(nOperandsX);
      // IDs are allocated from a global counter: rewind it so that the rebuilt
      // expression is numbered like the reference run.
      Manifold::Impl::meshIDCounter_ = idCounterBefore;
      for (auto& op : sc.expr) exec(e, op);
      ExecutionContext fresh;
      bool ok2;
      Manifold again = observe_with(e, sc.obs, fresh, &ok2);
      rr.rebuildFp = fp_manifold(again);
      rr.rebuildSolid = solid_of(again);
    }
  });
  if (outc) *outc = out;
  (void)refOperands;
  return rr;
}

std::string job_c15(const Args& a) {
  SimSetup s = sim_setup(a);
  Scenario sc;
  sc.setup = parse_program(a.s("setup"));
  sc.expr = parse_program(a.s("expr", ""));
  sc.prior = parse_program(a.s("prior", ""));
  auto ob = parse_program(a.s("obs", "status"));
  sc.obs = ob.empty() ? Op{"status", {}} : ob[0];
  JArr viol;
  long N = 0;
  g_sampleCount = 0;
  ProgressTrace pt;
  SimOutcome out0;
  const auto t0 = std::chrono::steady_clock::now();
  RunResult ref = run_once(sc, s, -1, &N, &pt, &out0, nullptr);
  const double run0ms = std::chrono::duration<double, std::milli>(std::chrono::steady_clock::now() - t0).count();
  auto addViol = [&](long k, const std::string& clause) {
    viol.raw(JObj().i64("k", k).str("clause", clause).done());
  };
  if (!pt.clause.empty()) addViol(0, pt.clause);
  if (!ref.observerClause.empty()) addViol(0, ref.observerClause);
  // "equals 1 after an uncancelled completion": a call that returned an error status (e.g. the mesh
  // handed to Smooth/FromMeshGL failed validation) did not complete and is not held to that.
  if (ref.status == (int)Manifold::Error::NoError) {
    if (ref.finalProgress != 1.0) addViol(0, "final_progress_not_1:" + std::to_string(ref.finalProgress));
  }
  if (ref.status == (int)Manifold::Error::Cancelled) addViol(0, "cancelled_without_cancel");
  // which k
  std::vector<long> ks;
  if (a.has("k")) {
    for (auto& t : split(a.s("k"), ',')) ks.push_back(strtol(t.c_str(), nullptr, 10));
  } else {
    long maxk = a.i("maxk", 400);
    // Sample size (never a verdict) is bounded by a wall-clock budget: each
    // injected run costs about twice the uncancelled one (it also rebuilds).
    if (a.has("budget_ms")) {
      long afford = (long)(a.d("budget_ms") / std::max(0.05, 2.0 * run0ms));
      if (afford < 44) afford = 44;
      if (afford < maxk) maxk = afford;
    }
    if (N <= maxk) {
      for (long k = 1; k <= N; k++) ks.push_back(k);
    } else {
      Rng r(a.u("kseed", 1));
      // stratified sample: first and last 20, then one per stratum
      for (long k = 1; k <= 20; k++) ks.push_back(k);
      for (long k = N - 19; k <= N; k++) ks.push_back(k);
      long strata = maxk - 40;
      for (long i = 0; i < strata; i++) {
        long lo = 21 + (N - 40) * i / strata, hi = 21 + (N - 40) * (i + 1) / strata;
        if (hi <= lo) hi = lo + 1;
        ks.push_back(lo + (long)r.below((uint32_t)(hi - lo)));
      }
    }
  }
  long nCancelled = 0, nCompleted = 0, nNotReached = 0;
  uint64_t steps = out0.st.steps;
  for (long k : ks) {
    long checks = 0;
    ProgressTrace ptk;
    SimOutcome outk;
    RunResult r = run_once(sc, s, k, &checks, &ptk, &outk, nullptr);
    steps += outk.st.steps;
    if (outk.exception) addViol(k, "exception:" + outk.what);
    if (checks < k) {
      nNotReached++;  // schedule diverged before reaching k (must not happen)
      if (!outk.st.stepCapHit) addViol(k, "check_index_not_reached");
      continue;
    }
    if (r.status == (int)Manifold::Error::NoError || (r.status != (int)Manifold::Error::Cancelled)) {
      nCompleted++;
      if (r.fp != ref.fp) addViol(k, "completed_result_differs_from_uncancelled:" + fp_diff(ref.fp, r.fp));
    } else {
      nCancelled++;
      if (!r.stickyClause.empty()) addViol(k, r.stickyClause);
    }
    if (r.operandFp != ref.operandFp) addViol(k, "operand_changed");
    // The rebuild runs later in the same simulated run, i.e. under a different stretch of the
    // schedule: in the parallel flavour it is compared at solid level (schedule-dependent meshes are
    // C04's subject), in the serial flavour bit for bit.
    if (!r.rebuildFp.empty()) {
      if (a.i("W", 1) <= 1 && a.i("exact_rebuild", 1)) {
        if (r.rebuildFp != ref.fp) addViol(k, "rebuild_with_fresh_context_differs:" + fp_diff(ref.fp, r.rebuildFp));
      } else if (!solid_equal(r.rebuildSolid, ref.resultSolid)) {
        addViol(k, "rebuild_with_fresh_context_differs:solid");
      }
    }
    if (!ptk.clause.empty()) addViol(k, ptk.clause);
    if (!r.observerClause.empty()) addViol(k, r.observerClause);
    if (r.intermediates.size() == ref.intermediates.size()) {
      for (size_t i = 0; i < r.intermediates.size(); i++) {
        const Solid& x = r.intermediates[i];
        if (x.status == (int)Manifold::Error::Cancelled) {
          // in-flight nodes may be poisoned; a node the expression had already evaluated may not
          if (i < r.wasForced.size() && r.wasForced[i]) {
            addViol(k, "evaluated_intermediate_cancelled:node" + std::to_string(i));
            break;
          }
          continue;
        }
        if (!solid_equal(x, ref.intermediates[i])) {
          addViol(k, "intermediate_differs_after_cancel:node" + std::to_string(i));
          break;
        }
      }
    }
  }
  JObj j;
  j.i64("checks", N).i64("k_tested", (int64_t)ks.size()).i64("cancelled", nCancelled).i64("completed", nCompleted);
  j.i64("not_reached", nNotReached).i64("progress_samples", pt.samples).num("final_progress", ref.finalProgress);
  j.i64("observer_samples", g_sampleCount).i64("ref_status", ref.status).str("ref_fp", ref.fp.substr(0, 60)).u64("total_steps", steps);
  j.raw("viol", viol.done()).raw("sim", outcome_json(out0));
  return j.done();
}

}  // namespace

void register_c15() { registry()["c15"] = job_c15; }

}  // namespace vh
