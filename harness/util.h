// Small shared utilities for the simulation harness.
#pragma once
#include <cinttypes>
#include <cmath>
#include <cstdint>
#include <cstdio>
#include <cstring>
#include <map>
#include <sstream>
#include <string>
#include <vector>

namespace vh {

struct Rng {
  uint64_t s;
  explicit Rng(uint64_t seed = 1) : s(seed) {}
  uint64_t next() {
    uint64_t z = (s += 0x9E3779B97F4A7C15ull);
    z = (z ^ (z >> 30)) * 0xBF58476D1CE4E5B9ull;
    z = (z ^ (z >> 27)) * 0x94D049BB133111EBull;
    return z ^ (z >> 31);
  }
  uint32_t below(uint32_t n) { return n <= 1 ? 0 : (uint32_t)(next() % n); }
  double uni(double a, double b) {
    return a + (b - a) * (next() >> 11) * (1.0 / 9007199254740992.0);
  }
};

inline uint64_t fnv(const void* p, size_t n, uint64_t h = 1469598103934665603ull) {
  const unsigned char* c = (const unsigned char*)p;
  for (size_t i = 0; i < n; i++) {
    h ^= c[i];
    h *= 1099511628211ull;
  }
  return h;
}
template <class V>
uint64_t hv(const V& v, uint64_t h = 1469598103934665603ull) {
  uint64_t n = v.size();
  h = fnv(&n, sizeof n, h);
  return v.empty() ? h : fnv(v.data(), v.size() * sizeof(v[0]), h);
}

inline std::string hex(uint64_t v) {
  char b[24];
  snprintf(b, sizeof b, "%016" PRIx64, v);
  return b;
}

// JSON string escaping.
inline std::string jstr(const std::string& s) {
  std::string o = "\"";
  for (unsigned char c : s) {
    if (c == '"' || c == '\\') {
      o += '\\';
      o += (char)c;
    } else if (c < 0x20) {
      char b[8];
      snprintf(b, sizeof b, "\\u%04x", c);
      o += b;
    } else
      o += (char)c;
  }
  return o + "\"";
}

// Minimal ordered JSON object/array builder (values are pre-rendered JSON).
struct JObj {
  std::string s = "{";
  bool first = true;
  JObj& raw(const std::string& k, const std::string& v) {
    if (!first) s += ",";
    first = false;
    s += jstr(k) + ":" + v;
    return *this;
  }
  JObj& str(const std::string& k, const std::string& v) { return raw(k, jstr(v)); }
  JObj& num(const std::string& k, double v) {
    char b[40];
    if (std::isfinite(v))
      snprintf(b, sizeof b, "%.17g", v);
    else
      snprintf(b, sizeof b, "null");
    return raw(k, b);
  }
  JObj& i64(const std::string& k, int64_t v) { return raw(k, std::to_string(v)); }
  JObj& u64(const std::string& k, uint64_t v) { return raw(k, std::to_string(v)); }
  JObj& boolean(const std::string& k, bool v) { return raw(k, v ? "true" : "false"); }
  std::string done() const { return s + "}"; }
};
struct JArr {
  std::string s = "[";
  bool first = true;
  JArr& raw(const std::string& v) {
    if (!first) s += ",";
    first = false;
    s += v;
    return *this;
  }
  JArr& str(const std::string& v) { return raw(jstr(v)); }
  JArr& i64(int64_t v) { return raw(std::to_string(v)); }
  std::string done() const { return s + "]"; }
};

// key=value argument map for one job line.
struct Args {
  std::map<std::string, std::string> kv;
  static Args parse(const std::string& line) {
    Args a;
    std::istringstream is(line);
    std::string tok;
    while (is >> tok) {
      auto p = tok.find('=');
      if (p == std::string::npos)
        a.kv[tok] = "1";
      else
        a.kv[tok.substr(0, p)] = tok.substr(p + 1);
    }
    return a;
  }
  bool has(const std::string& k) const { return kv.count(k) > 0; }
  std::string s(const std::string& k, const std::string& d = "") const {
    auto it = kv.find(k);
    return it == kv.end() ? d : it->second;
  }
  int64_t i(const std::string& k, int64_t d = 0) const {
    auto it = kv.find(k);
    return it == kv.end() ? d : strtoll(it->second.c_str(), nullptr, 10);
  }
  uint64_t u(const std::string& k, uint64_t d = 0) const {
    auto it = kv.find(k);
    return it == kv.end() ? d : strtoull(it->second.c_str(), nullptr, 10);
  }
  double d(const std::string& k, double dflt = 0) const {
    auto it = kv.find(k);
    return it == kv.end() ? dflt : strtod(it->second.c_str(), nullptr);
  }
};

inline std::vector<std::string> split(const std::string& s, char sep) {
  std::vector<std::string> out;
  std::string cur;
  for (char c : s) {
    if (c == sep) {
      out.push_back(cur);
      cur.clear();
    } else
      cur += c;
  }
  out.push_back(cur);
  return out;
}

}  // namespace vh
