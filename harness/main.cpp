// Simulation worker. Reads one job per line on stdin:
//     <jobid> <kind> key=value key=value ...
// executes it as one deterministic simulated run and prints
//     RESULT <jobid> <json>
// flushed immediately. A crash (sanitizer abort, deadlock exit 66, signal)
// kills the worker; the driver attributes it to the in-flight job and starts a
// new worker.
#include <sys/personality.h>
#include <unistd.h>

#include <cstdio>
#include <exception>
#include <iostream>
#include <string>

#include "jobs.h"

namespace vh {
std::map<std::string, JobFn>& registry() {
  static std::map<std::string, JobFn> r;
  return r;
}
}  // namespace vh

// Sanitizer options: distinct exit codes so the driver can classify, no leak
// checking (objects are intentionally kept alive across steps).
extern "C" __attribute__((used)) const char* __asan_default_options() {
  return "exitcode=77:detect_leaks=0:abort_on_error=0:allocator_may_return_null=1:detect_stack_use_after_return=0";
}
extern "C" __attribute__((used)) const char* __ubsan_default_options() {
  return "halt_on_error=1:exitcode=78:print_stacktrace=1";
}
extern "C" __attribute__((used)) const char* __tsan_default_options() {
  return "halt_on_error=0:exitcode=0:report_signal_unsafe=0:history_size=4:second_deadlock_stack=1";
}

int main(int argc, char** argv) {
  // With VERIF_NOASLR=1 the process re-executes itself with address-space
  // randomisation off, so that address-dependent behaviour (libstdc++'s
  // address-hashed mutex pool behind atomic shared_ptr access, which decides
  // some of the happens-before edges TSan sees) is a function of the job only.
  if (getenv("VERIF_NOASLR")) {
    int cur = personality(0xffffffff);
    if (cur != -1 && !(cur & ADDR_NO_RANDOMIZE)) {
      personality(cur | ADDR_NO_RANDOMIZE);
      execv("/proc/self/exe", argv);
    }
  }
  vh::register_all_jobs();
  std::setvbuf(stdout, nullptr, _IOLBF, 1 << 16);
  if (argc > 1 && std::string(argv[1]) == "one") {
    // simrun one <kind> key=value ...   (for replaying by hand / gdb)
    std::string line;
    for (int i = 3; i < argc; i++) line += std::string(argv[i]) + " ";
    auto it = vh::registry().find(argv[2]);
    if (it == vh::registry().end()) {
      fprintf(stderr, "unknown job kind %s\n", argv[2]);
      return 2;
    }
    std::string out = it->second(vh::Args::parse(line));
    printf("RESULT 0 %s\n", out.c_str());
    return 0;
  }
  printf("READY\n");
  fflush(stdout);
  std::string line;
  while (std::getline(std::cin, line)) {
    if (line.empty()) continue;
    if (line == "quit") break;
    size_t p1 = line.find(' ');
    size_t p2 = line.find(' ', p1 + 1);
    std::string id = line.substr(0, p1);
    std::string kind = line.substr(p1 + 1, p2 == std::string::npos ? std::string::npos : p2 - p1 - 1);
    std::string rest = p2 == std::string::npos ? "" : line.substr(p2 + 1);
    auto it = vh::registry().find(kind);
    std::string out;
    if (it == vh::registry().end())
      out = "{\"error\":\"unknown job kind\"}";
    else
      out = it->second(vh::Args::parse(rest));
    printf("RESULT %s %s\n", id.c_str(), out.c_str());
    fflush(stdout);
  }
  return 0;
}
