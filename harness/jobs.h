// Job registry and the common "run this body as one simulated run" helper.
#pragma once
#include <functional>
#include <map>
#include <string>
#include <vector>

#include "sim.h"
#include "util.h"

namespace vh {

using JobFn = std::function<std::string(const Args&)>;
std::map<std::string, JobFn>& registry();
void register_all_jobs();

// Builds the scheduler configuration from job arguments:
//   seed= W= stay= own= sync= mode= pctd= pctlen= cap= script=step:choice,... trace=
struct SimSetup {
  sim::Config cfg;
  std::vector<sim::Deviation> script;
  size_t thresholdDiv = 1;
  size_t maxUnionSize = 0;  // hook H5: BatchUnion chunk size, 0 = shipped
};
SimSetup sim_setup(const Args& a);

struct SimOutcome {
  sim::Stats st;
  bool exception = false;
  std::string what;
  std::string deviations;  // when trace=1: "step:choice,..." (non-default decisions)
  bool traceTruncated = false;
};

// Resets all process-global library state that could leak between runs
// (mesh ID counter, Quality), installs the hooks, runs body() as simulated
// thread 0, and restores the hooks.
SimOutcome run_simulated(const SimSetup& s, const std::function<void()>& body);
std::string outcome_json(const SimOutcome& o);

// Optional observers for the cancel probe (H1); set by the C15/C06 jobs.
struct CancelProbe {
  void* target = nullptr;           // ExecutionContext::Impl* or null = any
  long countdown = -1;              // fire when the k-th check is reached (1-based); <0 never
  long checks = 0;                  // checks seen so far
  bool fired = false;
  std::function<void(int done, int total)> observer;
};
extern CancelProbe g_probe;
void install_cancel_probe();
void remove_cancel_probe();

}  // namespace vh
