// Oracles shared by several checks: field-wise fingerprints, the C01
// closed-oriented-2-manifold invariant, the C08 canonical form.
#pragma once
#include <algorithm>
#include <cmath>
#include <map>
#include <string>
#include <unordered_map>
#include <vector>

#include "manifold/cross_section.h"
#include "manifold/manifold.h"
#include "util.h"

namespace vh {
using namespace manifold;

// ---------------------------------------------------------------- fingerprints
// Field-wise, so that a mismatch names the field. Every field of the exported
// MeshGL64 plus the scalar getters.
inline std::string fp_mesh(const MeshGL64& g) {
  std::string s;
  s += " np" + std::to_string(g.numProp);
  s += " vp" + hex(hv(g.vertProperties));
  s += " tv" + hex(hv(g.triVerts));
  s += " mf" + hex(hv(g.mergeFromVert));
  s += " mt" + hex(hv(g.mergeToVert));
  s += " ri" + hex(hv(g.runIndex));
  s += " ro" + hex(hv(g.runOriginalID));
  s += " rt" + hex(hv(g.runTransform));
  s += " rf" + hex(hv(g.runFlags));
  s += " fi" + hex(hv(g.faceID));
  s += " ht" + hex(hv(g.halfedgeTangent));
  s += " tol" + hex(fnv(&g.tolerance, sizeof g.tolerance));
  return s;
}

inline std::string fp_manifold(const Manifold& m, MeshGL64* outMesh = nullptr) {
  std::string s = "M st" + std::to_string((int)m.Status());
  s += " nv" + std::to_string(m.NumVert());
  s += " ne" + std::to_string(m.NumEdge());
  s += " nt" + std::to_string(m.NumTri());
  s += " nq" + std::to_string(m.NumProp());
  s += " npv" + std::to_string(m.NumPropVert());
  s += " g" + std::to_string(m.Genus());
  s += " oid" + std::to_string(m.OriginalID());
  Box b = m.BoundingBox();
  s += " bb" + hex(fnv(&b, sizeof b));
  double e = m.GetEpsilon(), t = m.GetTolerance();
  s += " eps" + hex(fnv(&e, sizeof e));
  s += " gt" + hex(fnv(&t, sizeof t));
  MeshGL64 g = m.GetMeshGL64();
  s += fp_mesh(g);
  if (outMesh) *outMesh = std::move(g);
  return s;
}

inline std::string fp_cross(const CrossSection& c) {
  Polygons p = c.ToPolygons();
  uint64_t h = 1469598103934665603ull;
  size_t nv = 0;
  for (auto& r : p) {
    h = hv(r, h);
    nv += r.size();
  }
  std::string s = "X nc" + std::to_string(p.size()) + " nv" + std::to_string(nv);
  s += " pl" + hex(h);
  double a = c.Area();
  s += " ar" + hex(fnv(&a, sizeof a));
  Rect r = c.Bounds();
  s += " bd" + hex(fnv(&r, sizeof r));
  double t = c.GetTolerance();
  s += " gt" + hex(fnv(&t, sizeof t));
  s += " n2v" + std::to_string(c.NumVert()) + " n2c" + std::to_string(c.NumContour());
  return s;
}

// Names the first differing field between two fingerprints ("" if equal).
inline std::string fp_diff(const std::string& a, const std::string& b) {
  if (a == b) return "";
  static const char* kPrefix[] = {"npv", "np", "nv", "ne", "nt", "nq", "n2v", "n2c", "nc", "st", "oid", "bb", "eps", "gt", "vp", "tv", "mf",
                                  "mt", "ri", "ro", "rt", "rf", "fi", "ht", "tol", "pl", "ar", "bd", "g", "M", "X"};
  auto A = split(a, ' '), B = split(b, ' ');
  for (size_t i = 0; i < std::min(A.size(), B.size()); i++)
    if (A[i] != B[i]) {
      for (const char* p : kPrefix)
        if (A[i].compare(0, strlen(p), p) == 0) return p;
      return A[i];
    }
  return "length";
}

// ------------------------------------------------- C01: closed oriented 2-manifold
// Independent re-implementation of the statement. Returns "" if the invariant
// holds, else the name of the first failing clause (+ detail).
inline std::string check_manifold_invariant(const Manifold& m, const MeshGL64& g) {
  const auto st = m.Status();
  const size_t np = g.numProp;
  if (st != Manifold::Error::NoError) {
    if (m.NumVert() != 0 || m.NumTri() != 0 || !m.IsEmpty() ||
        !g.triVerts.empty() || !g.vertProperties.empty())
      return "error_status_not_empty";
    return "";
  }
  if (np < 3) return "numProp<3";
  if (g.vertProperties.size() % np != 0) return "vertProperties_length";
  if (g.triVerts.size() % 3 != 0) return "triVerts_length";
  const size_t nv = g.vertProperties.size() / np, nt = g.triVerts.size() / 3;
  for (double v : g.vertProperties)
    if (!std::isfinite(v)) return "nonfinite_vertProperties";
  for (double v : g.halfedgeTangent)
    if (!std::isfinite(v)) return "nonfinite_halfedgeTangent";
  for (double v : g.runTransform)
    if (!std::isfinite(v)) return "nonfinite_runTransform";
  if (!std::isfinite(g.tolerance)) return "nonfinite_tolerance";
  if (!g.halfedgeTangent.empty() && g.halfedgeTangent.size() != 12 * nt)
    return "halfedgeTangent_length";
  if (g.mergeFromVert.size() != g.mergeToVert.size()) return "merge_length";
  std::vector<uint64_t> to(nv);
  for (size_t i = 0; i < nv; i++) to[i] = i;
  for (size_t i = 0; i < g.mergeFromVert.size(); i++) {
    if (g.mergeFromVert[i] >= nv || g.mergeToVert[i] >= nv) return "merge_index_range";
    to[g.mergeFromVert[i]] = g.mergeToVert[i];
  }
  auto root = [&](uint64_t v) {
    size_t guard = 0;
    while (to[v] != v && guard++ < nv) v = to[v];
    return v;
  };
  std::vector<char> referenced(nv, 0);
  std::unordered_map<uint64_t, int> edges;
  edges.reserve(nt * 3 * 2);
  std::vector<char> isRoot(nv, 0);
  for (size_t t = 0; t < nt; t++) {
    uint64_t v[3];
    for (int k = 0; k < 3; k++) {
      uint64_t x = g.triVerts[3 * t + k];
      if (x >= nv) return "triVerts_index_range";
      referenced[x] = 1;
      v[k] = root(x);
      isRoot[v[k]] = 1;
    }
    if (v[0] == v[1] || v[1] == v[2] || v[0] == v[2]) return "triangle_repeats_vertex";
    for (int k = 0; k < 3; k++) {
      uint64_t key = (v[k] << 32) | v[(k + 1) % 3];
      if (++edges[key] > 1) return "directed_edge_twice";
    }
  }
  for (auto& kv : edges) {
    uint64_t a = kv.first >> 32, b = kv.first & 0xffffffffu;
    auto it = edges.find((b << 32) | a);
    if (it == edges.end()) return "edge_without_opposite";
  }
  for (size_t i = 0; i < nv; i++)
    if (!referenced[i]) return "unreferenced_vertex";
  {
    // 2-manifold, not merely "every edge matched": the triangles around a vertex must form ONE fan
    // (a pinched vertex joins two fans). Outgoing edges per vertex == length of the fan reached by
    // walking  (v -> a)  =>  opposite of the previous edge of that triangle.
    std::unordered_map<uint64_t, uint64_t> nextOut;  // (v,a) directed edge -> third vertex c of triangle (v,a,c)
    nextOut.reserve(nt * 3 * 2);
    std::vector<uint32_t> outDeg(nv, 0);
    std::vector<uint64_t> anyOut(nv, (uint64_t)-1);
    for (size_t t = 0; t < nt; t++) {
      uint64_t v[3] = {root(g.triVerts[3 * t]), root(g.triVerts[3 * t + 1]), root(g.triVerts[3 * t + 2])};
      for (int k = 0; k < 3; k++) {
        nextOut[(v[k] << 32) | v[(k + 1) % 3]] = v[(k + 2) % 3];
        outDeg[v[k]]++;
        anyOut[v[k]] = v[(k + 1) % 3];
      }
    }
    for (size_t v = 0; v < nv; v++) {
      if (outDeg[v] == 0) continue;
      // rotate around v: from edge (v,a) in triangle (v,a,c) go to edge (v,c)
      uint64_t a = anyOut[v], start = a;
      uint32_t steps = 0;
      do {
        auto it = nextOut.find(((uint64_t)v << 32) | a);
        if (it == nextOut.end()) return "vertex_fan_broken";
        a = it->second;
        steps++;
      } while (a != start && steps <= outDeg[v]);
      if (a != start || steps != outDeg[v]) return "pinched_vertex_more_than_one_fan";
    }
  }
  size_t nMerged = 0;
  for (size_t i = 0; i < nv; i++)
    if (isRoot[i]) nMerged++;
  if (m.NumTri() != nt) return "NumTri_mismatch";
  if (m.NumVert() != nMerged)
    return "NumVert_mismatch(" + std::to_string(m.NumVert()) + "!=" + std::to_string(nMerged) + ")";
  if (m.NumEdge() != edges.size() / 2) return "NumEdge_mismatch";
  const long chi = (long)nMerged - (long)(edges.size() / 2) + (long)nt;
  if (chi % 2 != 0) return "odd_euler_characteristic";
  if (m.Genus() != 1 - chi / 2) return "Genus_mismatch";
  // run structure sanity (indices in range)
  if (!g.runIndex.empty()) {
    if (g.runIndex.size() != g.runOriginalID.size() + 1) return "runIndex_length";
    for (size_t i = 0; i + 1 < g.runIndex.size(); i++)
      if (g.runIndex[i] > g.runIndex[i + 1]) return "runIndex_order";
    if (g.runIndex.back() != 3 * nt) return "runIndex_end";
  }
  if (!g.faceID.empty() && g.faceID.size() != nt) return "faceID_length";
  return "";
}

// ------------------------------------------------------- C08: canonical form
// One record per triangle: (originalID, flags, 12 transform entries with an
// absent transform array read as identity, faceID) then the three corners
// (position bits, property bits, tangent of the halfedge leaving the corner),
// rotated so that the least corner comes first; records sorted. Removes
// numbering only.
struct CanonOpts {
  bool withTangents = true;
  bool withFaceID = true;
  bool positionsAsFloat = false;  // 32-bit path: compare positions rounded to float
  bool propsAsFloat = false;
};

inline std::vector<std::vector<uint64_t>> canon(const MeshGL64& g, const CanonOpts& o,
                                                std::vector<std::pair<int, int>>* normalChannels = nullptr) {
  std::vector<std::vector<uint64_t>> recs;
  const size_t np = g.numProp, nt = g.triVerts.size() / 3;
  const bool hasT = o.withTangents && g.halfedgeTangent.size() == 12 * nt;
  auto bits = [](double d) {
    if (d == 0) d = 0;  // -0 == +0 for positions? keep sign: use raw bits
    uint64_t u;
    memcpy(&u, &d, 8);
    return u;
  };
  auto rawbits = [](double d) {
    uint64_t u;
    memcpy(&u, &d, 8);
    return u;
  };
  (void)bits;
  for (size_t run = 0; run + 1 < g.runIndex.size() || (g.runIndex.empty() && run == 0); run++) {
    size_t t0 = g.runIndex.empty() ? 0 : g.runIndex[run] / 3;
    size_t t1 = g.runIndex.empty() ? nt : g.runIndex[run + 1] / 3;
    std::vector<uint64_t> head;
    head.push_back(g.runOriginalID.size() > run ? g.runOriginalID[run] : 0xffffffffu);
    const uint8_t flags = g.runFlags.size() > run ? g.runFlags[run] : 0;
    head.push_back(flags);
    if (g.runTransform.size() >= 12 * (run + 1))
      for (int k = 0; k < 12; k++) head.push_back(rawbits(g.runTransform[12 * run + k] + 0.0));
    else {
      const double id[12] = {1, 0, 0, 0, 1, 0, 0, 0, 1, 0, 0, 0};
      for (int k = 0; k < 12; k++) head.push_back(rawbits(id[k]));
    }
    for (size_t t = t0; t < t1; t++) {
      std::vector<uint64_t> corner[3];
      for (int k = 0; k < 3; k++) {
        const size_t v = g.triVerts[3 * t + k];
        for (size_t p = 0; p < np; p++) {
          double d = g.vertProperties[v * np + p];
          if ((p < 3 && o.positionsAsFloat) || (p >= 3 && o.propsAsFloat)) d = (double)(float)d;
          bool isNormal = false;
          if ((flags & 2) && p >= 3 && p < 6) isNormal = true;
          if (isNormal) continue;  // compared separately with tolerance
          corner[k].push_back(rawbits(d));
        }
        if (hasT)
          for (int c = 0; c < 4; c++) {
            double d = g.halfedgeTangent[4 * (3 * t + k) + c];
            if (o.positionsAsFloat) d = (double)(float)d;
            corner[k].push_back(rawbits(d));
          }
      }
      int best = 0;
      for (int k = 1; k < 3; k++)
        if (corner[k] < corner[best]) best = k;
      std::vector<uint64_t> rec = head;
      rec.push_back(o.withFaceID && g.faceID.size() == nt ? g.faceID[t] : 0);
      for (int k = 0; k < 3; k++) {
        auto& c = corner[(best + k) % 3];
        rec.insert(rec.end(), c.begin(), c.end());
      }
      recs.push_back(std::move(rec));
    }
    if (g.runIndex.empty()) break;
  }
  std::sort(recs.begin(), recs.end());
  (void)normalChannels;
  return recs;
}

}  // namespace vh
