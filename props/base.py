"""Common flow of a check: build flavours from /repo's working tree, explore,
classify findings (known finding / new violation), minimise, gate, report,
write evidence."""
import json, os, sys, time, random, hashlib
import simdrv

QUICK_BUDGET = 150.0     # seconds of exploration per quick check (after build)
THOROUGH_BUDGET = 1500.0


def key_str(key):
    return " ".join("%s=%s" % (k, key[k]) for k in sorted(key))


def same_finding(a, b):
    """Keys equal; two crashes count as the same finding whatever the signal or
    sanitizer class (memory corruption does not die the same way twice)."""
    if a is None or b is None:
        return False
    if str(a.get("clause", "")).startswith("crash_") and str(b.get("clause", "")).startswith("crash_") \
            and a.get("clause") != "crash_timeout" and b.get("clause") != "crash_timeout":
        return True
    return key_str(a) == key_str(b)


class Check:
    prop = "C00"
    level = "exploration"
    flavours = ["ser", "par"]
    technique = ""
    assumptions = []

    # ---- to be provided by subclasses
    def explore(self):
        """Fill self.findings (list of dict(key, desc, replay)) and self.cov."""
        raise NotImplementedError

    def reproduce(self, replay, fresh=False):
        """Re-executes a replay object. Returns (key or None, hash string)."""
        raise NotImplementedError

    def minimise(self, finding):
        return finding

    # ---- helpers
    def run_job(self, job, fresh=False):
        return self.pool.run_fresh(job) if fresh else self.pool.run_one(job)

    def time_left(self):
        return self.deadline - time.time()

    def add_finding(self, key, desc, replay):
        ks = key_str(key)
        self.finding_counts[ks] = self.finding_counts.get(ks, 0) + 1
        if ks in self.findings_by_key:
            return
        f = {"key": key, "desc": desc, "replay": replay}
        self.findings_by_key[ks] = f
        self.findings.append(f)

    def main(self, seed, tier, replay, budget, minimise):
        self.seed, self.tier = seed, tier
        self.t0 = time.time()
        self.build_s = simdrv.ensure_built(self.flavours)
        self.pool = simdrv.Pool()
        self.findings, self.findings_by_key, self.finding_counts = [], {}, {}
        self.cov = {"evaluations": 0, "distinct_nontrivial": 0, "rule": "", "samples": []}
        self.budget = budget if budget is not None else (QUICK_BUDGET if tier == "quick" else THOROUGH_BUDGET)
        self.deadline = time.time() + self.budget
        self.do_minimise = minimise
        try:
            if replay:
                return self.replay_file(replay)
            self.explore()
            return self.report()
        finally:
            self.pool.close()

    def replay_file(self, path):
        rep = json.load(open(path))
        key, h = self.reproduce(rep, fresh=True)
        if key is None:
            print("replay %s: no violation reproduced" % path)
            return 0
        known = simdrv.match_known(self.prop, key)
        if known:
            print("KNOWN-FINDING: property=%s %s" % (self.prop, known.get("description", key_str(key))))
            return 0
        print("reproduced: %s (hash %s)" % (key_str(key), h))
        print("VIOLATION property=%s replay=%s" % (self.prop, path))
        return 1

    def report(self):
        # all minimisation work of this run shares one wall-clock allowance
        simdrv.MIN_DEADLINE[0] = time.time() + max(90.0, 0.6 * self.budget)
        nviol = 0
        rc = 0
        known_lines = {}
        reported = []
        for f in self.findings:
            known = simdrv.match_known(self.prop, f["key"])
            if known:
                kid = known.get("id", key_str(known.get("key", {})))
                known_lines.setdefault(kid, [known, 0])
                known_lines[kid][1] += self.finding_counts[key_str(f["key"])]
                continue
            # new violation: gate 1 (same job twice -> same verdict and hash)
            f["replay"]["expect"] = f["key"]
            if f["key"].get("clause") == "crash_timeout":
                # a watchdog timeout is only a verdict if it persists with a much longer allowance
                # (other work on the machine can slow a run down); otherwise it is counted, not reported
                f["replay"]["timeout"] = 360
                kt, _ = self.reproduce(f["replay"], fresh=True)
                if kt is None or kt.get("clause") != "crash_timeout":
                    self.cov["transient_timeouts_not_reproduced"] = self.cov.get("transient_timeouts_not_reproduced", 0) + 1
                    continue
            k1, h1 = self.reproduce(f["replay"])
            k2, h2 = self.reproduce(f["replay"])
            if not same_finding(k1, f["key"]) or not same_finding(k2, f["key"]) or h1 != h2:
                nd = simdrv.save_replay(self.prop, "nondet_" + hashlib.sha1(key_str(f["key"]).encode()).hexdigest()[:8], f["replay"])
                print("HARNESS-NONDETERMINISM property=%s finding=%s first=%s/%s second=%s/%s replay=%s" % (
                    self.prop, key_str(f["key"]), k1 and key_str(k1), h1, k2 and key_str(k2), h2, nd))
                rc = max(rc, 2)
                continue
            g = f
            if self.do_minimise and time.time() < simdrv.MIN_DEADLINE[0]:
                try:
                    g = self.minimise(f) or f
                except Exception as e:  # minimisation must never lose a finding
                    print("minimisation failed (%s); reporting unminimised" % e)
                    g = f
            # gate 2: fresh-process replay of the minimised file
            name = hashlib.sha1(json.dumps(g["replay"], sort_keys=True).encode()).hexdigest()[:10]
            g["replay"]["expect"] = g["key"]
            path = simdrv.save_replay(self.prop, name, g["replay"])
            k3, h3 = self.reproduce(g["replay"], fresh=True)
            if not same_finding(k3, g["key"]):
                # fall back to the unminimised replay before giving up
                f["replay"]["expect"] = f["key"]
                path = simdrv.save_replay(self.prop, name + "_full", f["replay"])
                k4, h4 = self.reproduce(f["replay"], fresh=True)
                if not same_finding(k4, f["key"]):
                    print("HARNESS-NONDETERMINISM property=%s: fresh replay does not reproduce %s" % (self.prop, key_str(f["key"])))
                    rc = max(rc, 2)
                    continue
                g = f
            nviol += 1
            reported.append({"key": g["key"], "desc": g["desc"], "replay": os.path.relpath(path, simdrv.VERIF),
                             "occurrences": self.finding_counts[key_str(f["key"])]})
            print("violation: %s -- %s" % (key_str(g["key"]), g["desc"]))
            print("VIOLATION property=%s replay=%s" % (self.prop, path))
            rc = max(rc, 1)
        # a gated violation is a verdict even if another finding of the same run did not replay
        if nviol > 0:
            rc = 1
        for kid, (known, cnt) in sorted(known_lines.items()):
            print("KNOWN-FINDING: property=%s %s (seen %d times this run)" % (self.prop, known.get("description", kid), cnt))
        wall = time.time() - self.t0
        cov = self.cov
        cov["known_findings_seen"] = {k: v[1] for k, v in known_lines.items()}
        cov["new_violations"] = reported
        cov["build_s"] = round(self.build_s, 1)
        cov["worker_restarts"] = self.pool.restarts
        if cov.get("evaluations", 0) > 0 and wall > 0:
            cov["runs_per_hour"] = int(cov["evaluations"] * 3600.0 / max(1e-9, wall - self.build_s))
        simdrv.write_evidence(self.prop, self.tier, self.seed, self.level, cov, self.assumptions, wall, nviol)
        print("%s %s: %d evaluations, %d distinct non-trivial, %d new violations, %d known-finding kinds, %.0fs"
              % (self.prop, self.tier, cov.get("evaluations", 0), cov.get("distinct_nontrivial", 0), nviol, len(known_lines), wall))
        return rc
