"""C13 -- parallel primitives and lock-free containers equal their sequential spec.

Primitives: every template of src/parallel.h instantiated with
ExecutionPolicy::Par inside a simulated run (seeded schedule of the real oneTBB
range/reduce/scan protocols) and compared with the std:: algorithm.
Containers: 2-3 simulated client threads on DisjointSets / HashTableD with a
scheduling decision before every atomic step (hook H3, sync rate 1)."""
import random
import simdrv
from .base import Check, key_str
from .c06 import parse_tsan

CASES = ["sort_i32", "sort_u32", "sort_i64", "sort_u64", "sort_i16", "sort_u8", "sort_size_t", "sort_cmp", "sort_cmp_desc",
         "sort_double", "sort_vec_int", "for_each", "transform", "copy", "fill", "sequence", "reduce", "transform_reduce",
         "inclusive_scan", "inclusive_scan_inplace", "exclusive_scan", "exclusive_scan_abssum", "exclusive_scan_inplace", "exclusive_scan_affine", "exclusive_scan_lastnonzero",
         "copy_if", "remove_if", "remove", "unique", "count_if", "all_of", "gather", "scatter"]


def lengths(rng, thr):
    """Lengths around the (scaled) thresholds and grain sizes, plus 0,1,2,3, primes."""
    T = max(1, 10000 // thr)
    base = [0, 1, 2, 3, T - 1, T, T + 1, 2 * T + 1, 4 * T + 3, 1009, 7919]
    base += [rng.randint(2, 6) * T + rng.randint(0, 97), rng.randint(1, 40000 // max(1, thr // 8) + 10)]
    return [max(0, b) for b in base]


class C13(Check):
    prop = "C13"
    level = "exploration"
    flavours = ["par", "par-asan", "par-tsan"]
    assumptions = [
        "sequentially consistent interleavings only: the simulator does not model weaker hardware memory orders",
        "simtbb's schedules are a subset of the schedules the TBB contract allows",
        "thresholds and grain sizes divided by the hook H2 knob so that splits, steals, reduce body splits and scan pre-scans "
        "occur at lengths of a few hundred to a few ten-thousand elements; a share of runs uses the shipped thresholds with "
        "lengths up to 3e5",
    ]

    def explore(self):
        rng = random.Random(self.seed * 7919 + 13)
        quick = self.tier == "quick"
        hashes, nontrivial = set(), set()
        stats = {"prim_runs": 0, "uf_runs": 0, "ht_runs": 0, "steals": 0, "steps": 0, "tasks": 0, "uf_distinct_interleavings": 0,
                 "ht_distinct_interleavings": 0, "ht_full_runs": 0, "asan_runs": 0, "crashes": 0, "sync_yields": 0}
        casecount = {}
        samples = []
        ufh, hth = set(), set()
        rounds = 0
        while self.time_left() > 10:
            rounds += 1
            jobs = []
            for case in CASES:
                thr = rng.choice([64, 64, 16, 1])
                for n in lengths(rng, thr):
                    if thr == 1 and rng.random() < 0.5:
                        n = rng.choice([9999, 10000, 10001, 20001, 100000, 100001, 300007])
                    args = {"case": case, "n": n, "dseed": rng.randrange(1 << 30), "dist": rng.randrange(6), "thr": thr,
                            "W": rng.choice([1, 2, 3, 4, 8, 16]), "stay": rng.choice([0, 30, 60, 85]), "own": rng.choice([30, 70, 95]),
                            "seed": rng.randrange(1, 1 << 30)}
                    fl = "par-asan" if rng.random() < 0.15 else ("par-tsan" if rng.random() < 0.06 and n <= 30000 else "par")
                    jobs.append({"flavour": fl, "kind": "c13", "args": args, "timeout": 300})
            for i in range(1200 if quick else 2400):
                args = {"threads": rng.choice([2, 2, 3]), "elems": rng.randint(3, 10), "ops": rng.randint(2, 5),
                        "dseed": rng.randrange(1 << 30), "sync": 1, "stay": rng.choice([0, 20, 50, 80]), "seed": rng.randrange(1, 1 << 30),
                        "mode": rng.choice([0, 0, 2]), "pctd": rng.randint(1, 3), "pctlen": 200}
                if i % 3:
                    # trees of equal rank built sequentially first (a random perfect matching, optionally matched again), then
                    # one or two concurrent operations per thread on few elements: the threads meet on the same pair of roots
                    # through different element pairs, and the structure is inspected raw at quiescence
                    args.update({"shape": rng.choice([1, 1, 1, 2]), "elems": rng.choice([4, 4, 4, 4, 4, 4, 5, 6, 8, 8]),
                                 "ops": rng.choice([1, 1, 1, 1, 1, 1, 2, 2, 3]), "prelude": rng.choice([0, 0, 0, 1]),
                                 "threads": rng.choice([2, 2, 2, 2, 2, 3]), "stay": rng.choice([0, 0, 20, 50]), "mode": rng.choice([0, 0, 0, 2])})
                jobs.append({"flavour": "par", "kind": "c13uf", "args": args, "timeout": 120})
            for _ in range(150 if quick else 400):
                args = {"threads": rng.choice([2, 2, 3]), "ops": rng.randint(1, 4), "logsize": rng.choice([2, 3, 3, 4]),
                        "keys": rng.randint(2, 8), "step": rng.choice([1, 1, 3]), "dseed": rng.randrange(1 << 30), "sync": 1,
                        "stay": rng.choice([0, 20, 50, 80]), "seed": rng.randrange(1, 1 << 30), "mode": rng.choice([0, 0, 2]),
                        "pctd": rng.randint(1, 3), "pctlen": 100}
                jobs.append({"flavour": "par", "kind": "c13ht", "args": args, "timeout": 120})
            rng.shuffle(jobs)
            res = self.pool.run_all(jobs, deadline=self.deadline)
            for j, r in zip(jobs, res):
                if r.get("skipped"):
                    continue
                if not r["ok"] and r.get("timeout"):
                    stats["timeouts_inconclusive"] = stats.get("timeouts_inconclusive", 0) + 1
                    continue
                if not r["ok"]:
                    stats["crashes"] += 1
                    cls = simdrv.classify_crash(r)
                    key = {"clause": "crash_" + cls, "case": j["args"].get("case", j["kind"])}
                    if cls in ("asan", "ubsan"):
                        key["site"] = simdrv.asan_site(r.get("stderr", ""))
                    self.add_finding(key, "worker died (%s): %s" % (cls, simdrv.crash_summary(r)),
                                     {"property": "C13", "kind": j["kind"], "flavour": j["flavour"], "args": j["args"]})
                    continue
                self.cov["evaluations"] += 1
                sim = r["res"]["sim"]
                stats["steps"] += sim["steps"]
                stats["sync_yields"] += sim["sync_yields"]
                if j["flavour"] == "par-asan":
                    stats["asan_runs"] += 1
                h = j["kind"] + sim["hash"]
                hashes.add(h)
                if j["kind"] == "c13":
                    stats["prim_runs"] += 1
                    stats["steals"] += sim["steals"]
                    stats["tasks"] += sim["tasks"]
                    casecount[j["args"]["case"]] = casecount.get(j["args"]["case"], 0) + 1
                    if sim["steals"] > 0:
                        nontrivial.add(h)
                else:
                    if j["kind"] == "c13uf":
                        stats["uf_runs"] += 1
                        ufh.add(r["res"]["plan"] + sim["hash"])
                    else:
                        stats["ht_runs"] += 1
                        hth.add(r["res"]["plan"] + sim["hash"])
                        if r["res"].get("full"):
                            stats["ht_full_runs"] += 1
                    if sim["switches"] > 0:
                        nontrivial.add(h)
                if j["flavour"] == "par-tsan":
                    stats["tsan_runs"] = stats.get("tsan_runs", 0) + 1
                    races, _o = parse_tsan(r.get("stderr", ""))
                    for site in set(races):
                        self.add_finding({"clause": "data_race", "case": j["args"].get("case", j["kind"]), "sites": site},
                                         "ThreadSanitizer data race inside a parallel primitive at %s (%s)" % (site, simdrv.fmt_args(j["args"])),
                                         {"property": "C13", "kind": j["kind"], "flavour": j["flavour"], "args": j["args"]})
                key, desc = self.key_of(j, r)
                if key:
                    self.add_finding(key, desc, {"property": "C13", "kind": j["kind"], "flavour": j["flavour"], "args": j["args"]})
                elif len(samples) < 8 and (sim["steals"] > 0 or (j["kind"] != "c13" and sim["switches"] > 2)) and rng.random() < 0.05:
                    samples.append({"kind": j["kind"], "args": j["args"], "plan": r["res"].get("plan"), "decisions": sim["steps"],
                                    "steals": sim["steals"], "decision_hash": sim["hash"]})
        stats["uf_distinct_interleavings"] = len(ufh)
        stats["ht_distinct_interleavings"] = len(hth)
        self.cov.update({
            "distinct_nontrivial": len(nontrivial),
            "rule": "one evaluation = one simulated run: a primitive on one seeded input under one seeded schedule, or one "
                    "container plan (2-3 threads) under one seeded interleaving with a decision before every atomic step; "
                    "distinct = distinct (kind, decision hash); non-trivial = at least one steal (primitives) or thread switch (containers)",
            "samples": samples, "distinct_decision_hashes": len(hashes), "cases": casecount, "totals": stats, "rounds": rounds,
            "components": {"real": "src/parallel.h templates, oneTBB parallel_for/reduce/scan/invoke templates, DisjointSets, HashTableD",
                           "stub": "oneTBB runtime scheduler (simtbb)"},
        })

    def key_of(self, j, r):
        mm = r["res"]["mismatch"]
        if not mm:
            return None, ""
        a = j["args"]
        if j["kind"] == "c13":
            key = {"clause": "differs_from_std", "case": a["case"]}
            if a["case"].startswith("sort_") and r["res"].get("has_neg"):
                key["input"] = "negative_keys"
            if a["case"] in ("reduce", "transform_reduce"):
                key["detail"] = mm
            if a["case"] == "unique" and a["n"] > 65536:
                key["input"] = "longer_than_65536"
            desc = "%s(n=%d, dist=%d) under schedule seed=%d W=%d thr=%d differs from std:: at %s" % (
                a["case"], a["n"], a["dist"], a["seed"], a["W"], a["thr"], mm)
        else:
            key = {"clause": "container_spec", "container": "DisjointSets" if j["kind"] == "c13uf" else "HashTableD",
                   "detail": mm.split("(")[0].split(":")[0]}
            desc = "%s: %s; plan %s; schedule seed=%d" % (key["container"], mm, r["res"]["plan"], a["seed"])
        return key, desc

    def reproduce(self, replay, fresh=False):
        fresh = fresh or replay["flavour"] == "par-tsan"
        r = self.run_job({"flavour": replay["flavour"], "kind": replay["kind"], "args": replay["args"], "timeout": 300}, fresh)
        exp = replay.get("expect")
        if not r["ok"]:
            cls = simdrv.classify_crash(r)
            key = {"clause": "crash_" + cls, "case": replay["args"].get("case", replay["kind"])}
            if cls in ("asan", "ubsan"):
                key["site"] = simdrv.asan_site(r.get("stderr", ""))
            return key, "crash"
        if replay["flavour"] == "par-tsan":
            races, _o = parse_tsan(r.get("stderr", ""))
            if races:
                return {"clause": "data_race", "case": replay["args"].get("case", replay["kind"]), "sites": sorted(set(races))[0]}, r["res"]["sim"]["hash"]
        key, _ = self.key_of({"kind": replay["kind"], "args": replay["args"]}, r)
        return key, r["res"]["sim"]["hash"]

    def minimise(self, finding):
        rep = {k: (dict(v) if isinstance(v, dict) else v) for k, v in finding["replay"].items()}
        want = key_str(finding["key"])
        rep["expect"] = finding["key"]

        def still(args):
            k, _ = self.reproduce(dict(rep, args=args))
            return k is not None and key_str(k) == want

        a = dict(rep["args"])
        if rep["kind"] == "c13":
            # shrink length, then workers
            for n in (0, 1, 2, 3, 8, 64, 157, 313, 1000, 65537, 65600, 70000):
                if n < a["n"] and still(dict(a, n=n)):
                    a["n"] = n
                    break
            for W in (1, 2):
                if W < a["W"] and still(dict(a, W=W)):
                    a["W"] = W
                    break
        else:
            for ops in range(1, a["ops"]):
                if still(dict(a, ops=ops)):
                    a["ops"] = ops
                    break
            if a["threads"] > 2 and still(dict(a, threads=2)):
                a["threads"] = 2
        rep["args"] = a
        return {"key": finding["key"], "desc": finding["desc"] + " [minimised: %s]" % simdrv.fmt_args(a), "replay": rep}


CHECK = C13()
