from .base import Check


class Stub(Check):
    prop = "C14"


CHECK = Stub()
