"""C14 -- spatial indices report exactly the overlapping pairs (the
schedule-dependent half): concurrent bottom-up BVH box construction with atomic
arrival counters and concurrent recording, under simulated schedules, versus
the all-pairs closed-interval scan."""
import random
import simdrv
from .base import Check, key_str
from .c06 import parse_tsan


class C14(Check):
    prop = "C14"
    level = "exploration"
    flavours = ["par", "par-asan", "par-tsan"]
    assumptions = [
        "only the schedule-dependent half of the property is decided here: internal boxes built by the lock-free arrival-counter "
        "pass and pairs recorded concurrently, for seeded leaf sets; the exhaustive small-lattice enumeration of leaf sets in the "
        "quantifier is model checking and is not attempted; the polygon k-d tree (QueryTwoDTree) is sequential and not simulated",
        "sequentially consistent interleavings only",
    ]

    def explore(self):
        rng = random.Random(self.seed * 48271 + 14)
        hashes, nontrivial = set(), set()
        stats = {"runs": 0, "steals": 0, "steps": 0, "sync_yields": 0, "asan_runs": 0, "crashes": 0}
        kinds, sizes = {}, {}
        samples = []
        while self.time_left() > 8:
            jobs = []
            for _ in range(192):
                n = rng.choice([2, 3, 4, 5, 7, 8, 9, 16, 17, 31, 33, 64, 100, 257, 1000, 1500, 4096])
                thr = rng.choice([64, 64, 16, 1])
                args = {"n": n, "kind": rng.randrange(8), "queries": rng.choice([8, 32, 128, 600]), "dseed": rng.randrange(1 << 30),
                        "W": rng.choice([1, 2, 3, 4, 8, 16]), "stay": rng.choice([0, 30, 60, 85]), "own": rng.choice([30, 70, 95]),
                        "seed": rng.randrange(1, 1 << 30), "thr": thr, "sync": rng.choice([0, 0.001, 0.01, 0.1, 1] if n <= 64 else ([0, 0.001, 0.01, 0.05] if n <= 300 else [0, 0.0005, 0.002]))}
                fl = "par-asan" if rng.random() < 0.15 else ("par-tsan" if rng.random() < 0.12 and n <= 1500 else "par")
                jobs.append({"flavour": fl, "kind": "c14", "args": args, "timeout": 120})
            res = self.pool.run_all(jobs, deadline=self.deadline)
            for j, r in zip(jobs, res):
                if r.get("skipped"):
                    continue
                if not r["ok"] and r.get("timeout"):
                    stats["timeouts_inconclusive"] = stats.get("timeouts_inconclusive", 0) + 1
                    continue
                if not r["ok"]:
                    stats["crashes"] += 1
                    cls = simdrv.classify_crash(r)
                    key = {"clause": "crash_" + cls, "site": simdrv.asan_site(r.get("stderr", ""))}
                    self.add_finding(key, "worker died: %s" % simdrv.crash_summary(r), {"property": "C14", "flavour": j["flavour"], "args": j["args"]})
                    continue
                self.cov["evaluations"] += 1
                sim = r["res"]["sim"]
                stats["runs"] += 1
                stats["steals"] += sim["steals"]
                stats["steps"] += sim["steps"]
                stats["sync_yields"] += sim["sync_yields"]
                if j["flavour"] == "par-asan":
                    stats["asan_runs"] += 1
                h = "%s:%s:%s" % (j["args"]["dseed"], j["args"]["n"], sim["hash"])
                hashes.add(h)
                if sim["steals"] > 0 or sim["sync_yields"] > 0:
                    nontrivial.add(h)
                kinds[str(j["args"]["kind"])] = kinds.get(str(j["args"]["kind"]), 0) + 1
                sizes[str(j["args"]["n"])] = sizes.get(str(j["args"]["n"]), 0) + 1
                if j["flavour"] == "par-tsan":
                    stats["tsan_runs"] = stats.get("tsan_runs", 0) + 1
                    races, _other = parse_tsan(r.get("stderr", ""))
                    for site in set(races):
                        # this job runs nothing but the collider / BVH build and queries: any race between two
                        # worker threads here is a race on the index or on the recorder
                        self.add_finding({"clause": "data_race", "sites": site}, "ThreadSanitizer data race inside the concurrent BVH "
                                         "build/query at %s (n=%d kind=%d seed=%d W=%d)" % (site, j["args"]["n"], j["args"]["kind"], j["args"]["seed"], j["args"]["W"]),
                                         {"property": "C14", "flavour": j["flavour"], "args": j["args"]})
                mm = r["res"]["mismatch"]
                if mm:
                    key = {"clause": mm.split(":")[0], "detail": mm.split(":")[-1]}
                    self.add_finding(key, "leaf set n=%d kind=%d dseed=%d under schedule seed=%d W=%d: %s" % (
                        j["args"]["n"], j["args"]["kind"], j["args"]["dseed"], j["args"]["seed"], j["args"]["W"], mm),
                        {"property": "C14", "flavour": j["flavour"], "args": j["args"]})
                elif len(samples) < 6 and sim["steals"] > 0 and rng.random() < 0.02:
                    samples.append({"args": j["args"], "decisions": sim["steps"], "steals": sim["steals"], "decision_hash": sim["hash"]})
        self.cov.update({
            "distinct_nontrivial": len(nontrivial),
            "rule": "one evaluation = one seeded leaf set (kinds: lattice boxes, generic boxes, 2-point lattice, single cell, points, "
                    "identical boxes, degenerate bounding box, identical Morton codes) built and queried (box, self, point, after "
                    "UpdateBoxes, after Transform, 2D BVH) under one seeded schedule; distinct = distinct (leaf set, decision hash); "
                    "non-trivial = at least one steal or one preemption at an atomic/mutex sync point",
            "samples": samples, "leaf_set_kinds": kinds, "leaf_counts": sizes, "totals": stats,
            "components": {"real": "Collider (radix tree, BuildInternalBoxes, FindCollision), BVHBuildFromBoxes/BVHCollisions, "
                                   "oneTBB templates", "stub": "oneTBB runtime scheduler"},
        })

    def reproduce(self, replay, fresh=False):
        fresh = fresh or replay["flavour"] == "par-tsan"
        r = self.run_job({"flavour": replay["flavour"], "kind": "c14", "args": replay["args"], "timeout": 120}, fresh)
        if not r["ok"]:
            return {"clause": "crash_" + simdrv.classify_crash(r), "site": simdrv.asan_site(r.get("stderr", ""))}, "crash"
        if replay["flavour"] == "par-tsan":
            races, _ = parse_tsan(r.get("stderr", ""))
            exp = replay.get("expect") or {}
            for site in sorted(set(races)):
                if not exp or exp.get("sites") == site or exp.get("clause") != "data_race":
                    return {"clause": "data_race", "sites": site}, r["res"]["sim"]["hash"]
        mm = r["res"]["mismatch"]
        if not mm:
            return None, r["res"]["sim"]["hash"]
        return {"clause": mm.split(":")[0], "detail": mm.split(":")[-1]}, r["res"]["sim"]["hash"]

    def minimise(self, finding):
        rep = {k: (dict(v) if isinstance(v, dict) else v) for k, v in finding["replay"].items()}
        want = key_str(finding["key"])
        a = dict(rep["args"])

        def still(b):
            k, _ = self.reproduce(dict(rep, args=b))
            return k is not None and key_str(k) == want

        for n in (2, 3, 4, 5, 8, 16, 33):
            if n < a["n"] and still(dict(a, n=n)):
                a["n"] = n
                break
        for q in (1, 2, 8):
            if q < a["queries"] and still(dict(a, queries=q)):
                a["queries"] = q
                break
        for W in (1, 2):
            if W < a["W"] and still(dict(a, W=W)):
                a["W"] = W
                break
        rep["args"] = a
        return {"key": finding["key"], "desc": finding["desc"] + " [minimised: %s]" % simdrv.fmt_args(a), "replay": rep}


CHECK = C14()
