"""C05 -- Manifolds and CrossSections are values.

Reference model: object -> fingerprint frozen at birth. After every step of a
seeded history every live object is re-observed (getters in a seeded order)
and compared with its frozen value; copies must equal their source."""
import gen
from .progbase import ProgCheck


class C05(ProgCheck):
    prop = "C05"
    flag = "c05"
    level = "exploration"
    flavours = ["ser", "ser-asan", "par"]
    assumptions = [
        "observation = every public getter (Status, counts, Genus, OriginalID, BoundingBox, Epsilon, Tolerance, full GetMeshGL64; "
        "ToPolygons/Area/Bounds/Tolerance for CrossSections), hashed field-wise",
        "pools <= 12 Manifolds and 8 CrossSections, histories <= 40 steps",
    ]
    arms = [
        ("history", 60, {"mix": gen.MIX_HISTORY, "nops": (10, 40), "flavours": ["ser", "ser", "ser-asan", "par"], "thr": [64, 16]}),
        ("history2d", 15, {"mix": dict(gen.MIX_2D, xcopy=3, xassign=3, xforce=3, xscale=4, xsettol=1), "nops": (8, 30),
                            "flavours": ["ser", "ser-asan"]}),
    ]

    def finish_cov(self):
        self.cov["rule"] = ("one evaluation = one seeded history (op sequence over a growing pool) with every live object "
                            "re-fingerprinted after every step; distinct = distinct (history, decision hash); non-trivial = at least 3 objects")


CHECK = C05()
