from .base import Check


class Stub(Check):
    prop = "C05"


CHECK = Stub()
