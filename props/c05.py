"""C05 -- Manifolds and CrossSections are values.

Reference model: object -> fingerprint frozen at birth. After every step of a
seeded history every live object is re-observed (getters in a seeded order)
and compared with its frozen value; copies must equal their source."""
import gen
from .progbase import ProgCheck


class C05(ProgCheck):
    prop = "C05"
    flag = "c05"
    level = "exploration"
    flavours = ["ser", "ser-asan", "par", "par-asan"]
    assumptions = [
        "deferred-observation arm: the history is run with nothing observed until the end; copies and assignments made between "
        "never-observed objects must equal their sources when both are finally observed (differences between an observed and an "
        "unobserved history are counted but not judged: derived objects depend on rounded coordinates)",
        "observation = every public getter (Status, counts, Genus, OriginalID, BoundingBox, Epsilon, Tolerance, full GetMeshGL64; "
        "ToPolygons/Area/Bounds/Tolerance for CrossSections), hashed field-wise",
        "pools <= 12 Manifolds and 8 CrossSections, histories <= 40 steps",
    ]
    MIX_DEFER = {"circle": 3, "square": 2, "xpoly": 2, "xscale": 5, "xtrans": 4, "xrot": 4, "xmirror": 2, "xcopy": 5, "xassign": 5, "xsettol": 4,
                 "xsimplify": 2, "xoffset": 2, "xadd": 2, "xsub": 2, "xint": 1, "xhull": 1, "xwarp": 1, "xdecompose": 1,
                 "cube": 2, "sphere": 1, "rot": 3, "trans": 2, "mirror": 3, "scale": 2, "hugescale": 1, "scratch": 4, "drop": 3, "int": 1, "copy": 4, "assign": 4, "setprops": 2, "calcnorm": 1,
                 "add": 2, "sub": 2, "extrude": 1, "slice": 1, "settol": 1, "asorig": 1}
    arms = [
        ("deferred_observation", 25, {"mix": MIX_DEFER, "nops": (6, 30), "flavours": ["ser", "ser-asan"], "kind": "c05defer"}),
        ("history", 60, {"mix": gen.MIX_HISTORY, "nops": (10, 40), "flavours": ["ser", "ser", "ser-asan", "par"], "thr": [64, 16]}),
        ("history2d", 15, {"mix": dict(gen.MIX_2D, xcopy=3, xassign=3, xforce=3, xscale=4, xsettol=1), "nops": (8, 30),
                            "flavours": ["ser", "ser-asan"]}),
    ]

    def finish_cov(self):
        self.cov["rule"] = ("one evaluation = one seeded history (op sequence over a growing pool) with every live object "
                            "re-fingerprinted after every step; distinct = distinct (history, decision hash); non-trivial = at least 3 objects")


CHECK = C05()
