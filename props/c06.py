from .base import Check


class Stub(Check):
    prop = "C06"


CHECK = Stub()
