"""C06 -- shared objects may be used from many threads: no data race, no deadlock,
same answers as a serial execution.

Exploration over sync-point interleavings of 2-8 simulated client threads.
Race arm: par-tsan with arena concurrency 1 (every parallel loop runs inline on
its caller), ThreadSanitizer as happens-before oracle over the serialised
execution. Result arm: par with W >= 1, each thread's observation log compared
with the same program run alone."""
import random, re
import simdrv
from .base import Check, key_str

SETUP_3D = ["cube", "sphere", "cyl", "tet"]


def R(rng):
    return rng.randrange(1000)


def make_setup(rng):
    ops = []
    n3 = rng.randint(2, 4)
    for _ in range(n3):
        k = rng.choice(SETUP_3D)
        if k == "cube":
            ops.append("cube:%d,%d,%d,1" % (R(rng), R(rng), R(rng)))
        elif k == "sphere":
            ops.append("sphere:%d,%d" % (R(rng), rng.randint(1, 3)))
        elif k == "cyl":
            ops.append("cyl:%d,%d,%d,%d,1" % (R(rng), R(rng), R(rng), rng.randint(0, 12)))
        else:
            ops.append("tet")
    # lazy (unevaluated) expression nodes sharing sub-expressions
    for _ in range(rng.randint(2, 6)):
        k = rng.random()
        if k < 0.3:
            ops.append("rot:%d,%d,%d,%d" % (R(rng), R(rng), R(rng), R(rng)))
        elif k < 0.45:
            ops.append("trans:%d,%d,%d,%d" % (R(rng), R(rng), R(rng), R(rng)))
        elif k < 0.8:
            ops.append("%s:%d,%d" % (rng.choice(["add", "sub", "int", "add"]), R(rng), R(rng)))
        elif k < 0.9:
            ops.append("batch:%d,%s" % (rng.randrange(3), ",".join(str(R(rng)) for _ in range(rng.randint(2, 4)))))
        else:
            ops.append("force:%d,%d" % (R(rng), rng.randrange(5)))
    # cross-sections with pending lazy transforms
    ops.append("circle:%d,%d" % (R(rng), rng.randint(3, 40)))
    for _ in range(rng.randint(1, 3)):
        ops.append(rng.choice(["xscale:%d,%d,%d", "xtrans:%d,%d,%d"]) % (R(rng), R(rng), R(rng)) if rng.random() < 0.7 else "xrot:%d,%d" % (R(rng), R(rng)))
    if rng.random() < 0.4:
        ops.append("xadd:%d,%d" % (R(rng), R(rng)))
    return ops


def make_plan(rng, nops, ctx_role):
    ops = []
    for _ in range(nops):
        k = rng.random()
        if k < 0.25:
            ops.append("sq:%d,%d" % (R(rng), rng.randrange(10)))
        elif k < 0.37:
            ops.append("scopy:%d" % R(rng))
        elif k < 0.45:
            ops.append("scopylazy:%d" % R(rng))
            ops.append(rng.choice(["rot:-1,%d,%d,%d" % (R(rng), R(rng), R(rng)), "force:-1,%d" % rng.randrange(5),
                                   "add:-1,%d" % R(rng), "refine:-1,0", "copy:-1"]))
        elif k < 0.50:
            ops.append("sassign:%d,%d" % (R(rng), R(rng)))
        elif k < 0.62:
            ops.append("sbool:%d,%d,%d,%d,%d" % (rng.randrange(3), R(rng), R(rng), R(rng), R(rng)))
        elif k < 0.68:
            ops.append("sxf:%d,%d,%d,%d" % (R(rng), R(rng), R(rng), R(rng)))
        elif k < 0.74:
            ops.append("rid:%d" % R(rng))
        elif k < 0.86:
            ops.append("sxq:%d,%d" % (R(rng), rng.randrange(5)))
        elif k < 0.90:
            ops.append("sxcopy:%d" % R(rng))
        elif k < 0.95:
            ops.append("sxbool:%d,%d,%d,%d" % (rng.randrange(3), R(rng), R(rng), R(rng)))
        else:
            ops.append("sxxf:%d,%d,%d,%d" % (R(rng), R(rng), R(rng), R(rng)))
    if ctx_role == "eval":
        ops.insert(rng.randrange(len(ops) + 1), "ctxstatus:%d" % R(rng))
    elif ctx_role == "eval2":
        # the same context observes two evaluations in a row (counter reset while another thread polls)
        ops = ["ctxstatus:%d" % R(rng), "ctxstatus:%d" % R(rng)] + ops[:1]
    elif ctx_role == "cancel":
        for _ in range(rng.randint(1, 3)):
            ops.insert(rng.randrange(len(ops) + 1), "poll")
        ops.insert(rng.randrange(len(ops) + 1), "cancel")
    elif ctx_role == "poll":
        for _ in range(rng.randint(1, 4)):
            ops.insert(rng.randrange(len(ops) + 1), "poll")
    return ops


FRAME = re.compile(r"^\s+#(\d+) (.+?) (/\S+?):(\d+)")


def parse_tsan(err):
    """Returns (races, other) where races = list of 'siteA|siteB' keys."""
    races, other = [], {}
    for block in err.split("=================="):
        m = re.search(r"WARNING: ThreadSanitizer: ([^\n(]+)", block)
        if not m:
            continue
        kind = m.group(1).strip()
        if kind != "data race":
            other[kind] = other.get(kind, 0) + 1
            continue
        stacks, cur = [], None
        for line in block.split("\n"):
            if re.match(r"^\s+(Write|Read|Previous|Atomic|Location|Mutex|Thread)", line) or line.strip() == "":
                if cur:
                    stacks.append(cur)
                cur = [] if re.match(r"^\s+(Write|Read|Previous|Atomic)", line) else None
                continue
            fm = FRAME.match(line)
            if fm and cur is not None:
                cur.append((fm.group(2), fm.group(3), fm.group(4)))
        if cur:
            stacks.append(cur)
        sites = []
        for st in stacks[:2]:
            site = None
            for fn, path, ln in st:
                if "/repo/src/" in path or "/repo/include/" in path:
                    site = "%s:%s" % (path.split("/repo/")[1], ln)
                    break
            if site is None and st:
                site = st[0][0][:60]
            sites.append(site or "?")
        races.append("|".join(sorted(sites)))
    return races, other


class C06(Check):
    prop = "C06"
    level = "exploration"
    flavours = ["par", "par-tsan"]
    assumptions = [
        "the race oracle is ThreadSanitizer's happens-before analysis over a serialised execution whose scheduler is invisible "
        "to it (uninstrumented TU, raw futex hand-off); races that need a weak-memory reordering of relaxed atomics are out of reach",
        "the race arm runs with arena concurrency 1 plus the clients, so every report pairs accesses made on behalf of two different callers",
        "serial reference = the same thread program run alone on a freshly built shared pool, compared modulo a rank renaming of original IDs",
        "a run that exhausts its step cap is counted inconclusive, not a violation",
    ]

    def viol_key(self, v):
        parts = v["clause"].split(":")
        key = {"clause": parts[0]}
        if len(parts) > 1:
            key["op"] = parts[1]
        if len(parts) > 2:
            key["field"] = parts[2]
        return key

    def explore(self):
        rng = random.Random(self.seed * 16807 + 6)
        quick = self.tier == "quick"
        hashes, nontrivial = set(), set()
        stats = {"runs": 0, "tsan_runs": 0, "result_runs": 0, "steps": 0, "switches": 0, "mutex_blocks": 0, "sync_yields": 0,
                 "tsan_reports": 0, "deadlocks": 0, "inconclusive_step_cap": 0, "crashes": 0, "log_entries": 0, "with_ctx": 0}
        tcount = {}
        other_tsan = {}
        samples = []
        while self.time_left() > 10:
            jobs = []
            for _ in range(96):
                setup = make_setup(rng)
                nthreads = rng.choice([2, 2, 3, 3, 4] if quick else [2, 3, 4, 5, 6, 8])
                with_ctx = rng.random() < 0.35
                roles = [None] * nthreads
                if with_ctx:
                    roles[0] = rng.choice(["eval", "eval", "eval2"])
                    roles[1] = rng.choice(["cancel", "poll"]) if roles[0] == "eval" else "poll"
                plans = [";".join(make_plan(rng, rng.randint(1, 5), roles[t])) for t in range(nthreads)]
                tsan = rng.random() < 0.5
                args = {"setup": ";".join(setup), "plans": "|".join(plans), "seed": rng.randrange(1, 1 << 30),
                        "stay": rng.choice([0, 20, 50, 80]), "sync": rng.choice([0.02, 0.1, 0.3, 1]), "mode": rng.choice([0, 0, 2]),
                        "pctd": rng.randint(1, 3), "pctlen": rng.choice([50, 200, 1000]), "cap": 3000000}
                if not tsan and rng.random() < 0.25:
                    # ID-counter contention family: every thread evaluates Booleans of shared objects and
                    # reserves IDs, and every mesh-ID counter operation is a scheduling decision
                    plans = [";".join(["sbool:%d,%d,%d,%d,%d" % (rng.randrange(3), R(rng), R(rng), R(rng), R(rng)) for _ in range(rng.randint(1, 3))] +
                                      ["rid:%d" % R(rng)] * rng.randint(0, 2) + p.split(";")[:2]) for p in plans]
                    args["plans"] = "|".join(plans)
                    args.update({"hot": 6, "hotrate": 1, "sync": rng.choice([0, 0.01]), "stay": rng.choice([30, 50, 70])})
                elif rng.random() < 0.5:
                    # targeted preemption: one kind of synchronisation operation (atomic RMW, shared_ptr load/store,
                    # mesh-ID counter, progress counters, mutex) is always a decision, everything else rarely
                    args.update({"hot": rng.choice([3, 4, 5, 6, 6, 8, 9]), "hotrate": rng.choice([0.3, 1]), "sync": rng.choice([0, 0.01, 0.05])})
                if tsan:
                    args.update({"W": 1, "thr": 1, "alone": 0})
                else:
                    args.update({"W": rng.choice([1, 1, 2, 4]), "thr": rng.choice([1, 64]), "own": rng.choice([30, 70])})
                jobs.append({"flavour": "par-tsan" if tsan else "par", "kind": "c06", "args": args, "timeout": 240, "ctx": with_ctx})
            res = self.pool.run_all(jobs, deadline=self.deadline)
            for j, r in zip(jobs, res):
                if r.get("skipped"):
                    continue
                rep = {"property": "C06", "flavour": j["flavour"], "args": j["args"]}
                if not r["ok"] and r.get("timeout"):
                    stats["timeouts_inconclusive"] = stats.get("timeouts_inconclusive", 0) + 1
                    continue
                if not r["ok"]:
                    cls = simdrv.classify_crash(r)
                    stats["crashes"] += 1
                    if cls == "deadlock":
                        stats["deadlocks"] += 1
                    key = {"clause": "crash_" + cls}
                    if cls.startswith("signal") or cls in ("asan",):
                        key["site"] = simdrv.asan_site(r.get("stderr", ""))
                    self.add_finding(key, "setup=[%s] plans=[%s]: %s" % (j["args"]["setup"], j["args"]["plans"], simdrv.crash_summary(r)), rep)
                    continue
                x = r["res"]
                sim = x["sim"]
                self.cov["evaluations"] += 1
                stats["runs"] += 1
                stats["steps"] += sim["steps"]
                stats["switches"] += sim["switches"]
                stats["mutex_blocks"] += sim["mutex_blocks"]
                stats["sync_yields"] += sim["sync_yields"]
                stats["log_entries"] += x["log_entries"]
                if j["ctx"]:
                    stats["with_ctx"] += 1
                if sim["step_cap_hit"]:
                    stats["inconclusive_step_cap"] += 1
                tcount[str(x["threads"])] = tcount.get(str(x["threads"]), 0) + 1
                h = "%s|%s" % (hash(j["args"]["plans"] + j["args"]["setup"]), sim["hash"])
                hashes.add(h)
                if sim["switches"] >= 2:
                    nontrivial.add(h)
                desc_base = "setup=[%s] plans=[%s] schedule seed=%s sync=%s mode=%s" % (
                    j["args"]["setup"], j["args"]["plans"], j["args"]["seed"], j["args"]["sync"], j["args"]["mode"])
                if j["flavour"] == "par-tsan":
                    stats["tsan_runs"] += 1
                    races, other = parse_tsan(r.get("stderr", ""))
                    for k, v in other.items():
                        other_tsan[k] = other_tsan.get(k, 0) + v
                    stats["tsan_reports"] += len(races)
                    for site in set(races):
                        self.add_finding({"clause": "data_race", "sites": site}, "ThreadSanitizer data race between client threads at %s; %s" % (site, desc_base), rep)
                else:
                    stats["result_runs"] += 1
                for v in x["viol"]:
                    self.add_finding(self.viol_key(v), "%s: thread %s: %s" % (desc_base, v.get("thread"), v["clause"]), rep)
                if len(samples) < 5 and sim["switches"] > 3 and rng.random() < 0.05:
                    samples.append({"flavour": j["flavour"], "setup": j["args"]["setup"], "plans": j["args"]["plans"], "decisions": sim["steps"],
                                    "switches": sim["switches"], "mutex_blocks": sim["mutex_blocks"], "decision_hash": sim["hash"]})
        self.cov.update({
            "distinct_nontrivial": len(nontrivial),
            "rule": "one evaluation = one scenario (shared pool of lazy Manifolds/CrossSections + 2-8 client thread programs) under one "
                    "seeded interleaving of sync points (task boundaries, wrapped mutex operations, atomic hooks); distinct = distinct "
                    "(scenario, decision hash); non-trivial = at least two thread switches",
            "samples": samples, "threads_histogram": tcount, "totals": stats, "tsan_other_report_kinds_diagnostic": other_tsan,
            "components": {"real": "manifold library, libstdc++ mutexes/shared_ptr atomics, oneTBB templates",
                           "stub": "oneTBB runtime scheduler; thread scheduling (token passing at intercepted sync points)"},
        })

    def reproduce(self, replay, fresh=False):
        # TSan reports a given race once per process: always replay race findings in a new process
        fresh = fresh or replay["flavour"] == "par-tsan"
        r = self.run_job({"flavour": replay["flavour"], "kind": "c06", "args": replay["args"], "timeout": 240}, fresh)
        if not r["ok"]:
            cls = simdrv.classify_crash(r)
            key = {"clause": "crash_" + cls}
            if cls.startswith("signal") or cls in ("asan",):
                key["site"] = simdrv.asan_site(r.get("stderr", ""))
            return key, "crash"
        exp = replay.get("expect")
        keys = []
        if replay["flavour"] == "par-tsan":
            races, _ = parse_tsan(r.get("stderr", ""))
            keys += [{"clause": "data_race", "sites": s} for s in sorted(set(races))]
        keys += [self.viol_key(v) for v in r["res"]["viol"]]
        h = r["res"]["sim"]["hash"]
        for k in keys:
            if exp is None or key_str(k) == key_str(exp):
                return k, h
        return (keys[0] if keys else None), h

    def minimise(self, finding):
        rep = {k: (dict(v) if isinstance(v, dict) else v) for k, v in finding["replay"].items()}
        want = key_str(finding["key"])
        rep["expect"] = finding["key"]
        a = dict(rep["args"])

        def still(b):
            k, _ = self.reproduce(dict(rep, args=b))
            return k is not None and key_str(k) == want

        # fewer threads, then fewer ops per thread, then fewer setup ops (suffix cuts keep indices meaningful enough: modulo)
        plans = a["plans"].split("|")
        changed = True
        budget = 30
        while changed and len(plans) > 2 and budget > 0:
            changed = False
            for i in range(len(plans)):
                budget -= 1
                cand = plans[:i] + plans[i + 1:]
                if len(cand) >= 2 and still(dict(a, plans="|".join(cand))):
                    plans = cand
                    changed = True
                    break
        for i in range(len(plans)):
            ops = plans[i].split(";")
            if len(ops) > 1 and budget > 0:
                def t(sub, i=i):
                    return still(dict(a, plans="|".join(plans[:i] + [";".join(sub)] + plans[i + 1:])))
                ops2, c = simdrv.ddmin(ops, t, budget=8)
                budget -= c
                if t(ops2):
                    plans[i] = ";".join(ops2)
        a["plans"] = "|".join(plans)
        sops = a["setup"].split(";")
        sops2, _ = simdrv.ddmin(sops, lambda s: still(dict(a, setup=";".join(s))), budget=12)
        if still(dict(a, setup=";".join(sops2))):
            a["setup"] = ";".join(sops2)
        rep["args"] = a
        return {"key": finding["key"], "desc": finding["desc"] + " [minimised: setup=%s plans=%s]" % (a["setup"], a["plans"]), "replay": rep}


CHECK = C06()
