"""Shared flow for the checks whose oracle runs inside the `prog` job (C01, C05,
C08): seeded programs x flavours x schedules; violations come back in the
job's `viol` list; crashes (sanitizer, signal, timeout) are findings too."""
import os, random, time
import simdrv, gen
from .base import Check, key_str


def parse_clause(clause):
    """'a:b:c=d' -> {'clause': a, 'detail': b, ...}"""
    parts = clause.split(":")
    key = {"clause": parts[0].split("(")[0]}
    for p in parts[1:]:
        if "=" in p:
            k, v = p.split("=", 1)
            key[k] = gen.op_kind(v) if k == "born" else v
        elif "detail" not in key:
            key["detail"] = p.split("(")[0]
    return key


class ProgCheck(Check):
    flag = "c01"          # which in-process oracle to switch on
    arms = []             # list of (name, weight, dict(mix, size, nops=(lo,hi), flavours=[...], thr=[...], extra_args={}))
    par_W = [1, 2, 3, 4, 8, 16]

    def job_for(self, rng, arm):
        name, _, cfg = arm
        ops = gen.gen_program(rng, cfg["mix"], rng.randint(*cfg["nops"]), cfg.get("size", "small"), cfg.get("seed_ops"))
        fl = rng.choice(cfg["flavours"])
        args = {"prog": gen.prog_text(ops), self.flag: 1, "fp": 0, "obsseed": rng.randrange(1 << 30), "cap": 4000000}
        args.update(cfg.get("extra_args", {}))
        if rng.random() < 0.25:
            args["mus"] = rng.choice([2, 3, 5])  # hook H5: BatchUnion chunk size knob
        if fl.startswith("par"):
            args.update({"W": rng.choice(self.par_W), "stay": rng.choice([0, 30, 60, 85, 95]), "own": rng.choice([30, 70, 95]),
                         "seed": rng.randrange(1, 1 << 30), "thr": rng.choice(cfg.get("thr", [64]))})
        return {"flavour": fl, "kind": cfg.get("kind", "prog"), "args": args, "timeout": cfg.get("timeout", 120), "arm": name}

    def viol_key(self, v):
        key = parse_clause(v["clause"])
        key["op_kind"] = gen.op_kind(v["op"])
        return key

    def crash_key(self, j, r):
        cls = simdrv.classify_crash(r)
        key = {"clause": "crash_" + cls}
        if cls in ("asan", "ubsan"):
            key["site"] = simdrv.asan_site(r.get("stderr", ""))
        elif cls.startswith("signal") and j is not None and not j["flavour"].endswith("asan"):
            # a plain build only says "signal 11": run the same job once under ASan+UBSan to learn where
            fl = "par-asan" if j["flavour"].startswith("par") else "ser-asan"
            r2 = self.pool.run_one({"flavour": fl, "kind": j.get("kind", "prog"), "args": j["args"], "timeout": 300})
            if not r2["ok"] and simdrv.classify_crash(r2) in ("asan", "ubsan"):
                key = {"clause": "crash_" + simdrv.classify_crash(r2), "site": simdrv.asan_site(r2.get("stderr", ""))}
            else:
                key["site"] = "unknown"
        return key

    def explore(self):
        rng = random.Random(self.seed * 2654435761 % (1 << 31) + hash(self.prop) % 1000)
        rng = random.Random(self.seed * 1000003 + int(self.prop[1:]))
        hashes, nontrivial = set(), set()
        stats = {"runs": 0, "objects": 0, "tris": 0, "steps": 0, "steals": 0, "crashes": 0, "timeouts": 0, "violations_raw": 0}
        armcount, flcount, opcount = {}, {}, {}
        samples = []
        weights = [a[1] for a in self.arms]
        while self.time_left() > 8:
            arms = [a for a in self.arms if self.time_left() > a[2].get("min_time_left", 0)]
            weights = [a[1] for a in arms]
            jobs = [self.job_for(rng, rng.choices(arms, weights)[0]) for _ in range(96)]
            jobs.sort(key=lambda j: -len(j["args"]["prog"]) if j["arm"].startswith("big") else 0)
            t_round = time.time()
            res = self.pool.run_all(jobs, deadline=self.deadline)
            if os.environ.get("VERIF_DEBUG"):
                slow = sorted(((r.get("wall", 0), j["arm"], j["flavour"]) for j, r in zip(jobs, res) if r and not r.get("skipped")), reverse=True)[:4]
                print("[debug] round of %d jobs took %.1fs; slowest: %s" % (len(jobs), time.time() - t_round, slow), flush=True)
            for j, r in zip(jobs, res):
                if r.get("skipped"):
                    continue
                if not r["ok"] and r.get("timeout"):
                    # termination is not this property's subject (C09 owns "loops forever"): a run that
                    # exceeds its wall-clock allowance under the simulator is inconclusive, not a finding
                    stats["timeouts"] += 1
                    if os.environ.get("VERIF_DEBUG"):
                        print("[debug] TIMEOUT %s %s" % (j["flavour"], simdrv.fmt_args(j["args"])), flush=True)
                    continue
                if not r["ok"]:
                    stats["crashes"] += 1
                    key = self.crash_key(j, r)
                    self.add_finding(key, "worker died running program [%s] in %s: %s" % (j["args"]["prog"][:300], j["flavour"], simdrv.crash_summary(r)),
                                     {"property": self.prop, "flavour": j["flavour"], "kind": j["kind"], "args": j["args"], "crash": True})
                    continue
                x = r["res"]
                self.cov["evaluations"] += 1
                stats["runs"] += 1
                stats["objects"] += x["objects"]
                stats["tris"] += x["tris"]
                sim = x["sim"]
                stats["steps"] += sim["steps"]
                stats["steals"] += sim["steals"]
                armcount[j["arm"]] = armcount.get(j["arm"], 0) + 1
                flcount[j["flavour"]] = flcount.get(j["flavour"], 0) + 1
                for k, v in x["ops"].items():
                    opcount[k] = opcount.get(k, 0) + v
                h = simdrv.fmt_args({"p": hash(j["args"]["prog"]), "h": sim["hash"]})
                hashes.add(h)
                if x["objects"] >= 3:
                    nontrivial.add(h)
                for v in x["viol"]:
                    if v["prop"] != self.prop and not (self.prop == "C09" and v["prop"] == "C09"):
                        if v["prop"] == "C09":  # escaped exception: cross-cutting, reported under this check's crash class
                            self.add_finding({"clause": "exception", "detail": v["clause"][:60]}, v["clause"],
                                             {"property": self.prop, "flavour": j["flavour"], "args": j["args"]})
                        continue
                    stats["violations_raw"] += 1
                    key = self.viol_key(v)
                    desc = "program [%s] (%s) step %d (%s): %s" % (j["args"]["prog"][:400], j["flavour"], v["step"], v["op"], v["clause"])
                    self.add_finding(key, desc, {"property": self.prop, "flavour": j["flavour"], "kind": j["kind"], "args": j["args"], "step": v["step"]})
                if len(samples) < 6 and x["objects"] >= 3 and rng.random() < 0.05:
                    samples.append({"arm": j["arm"], "flavour": j["flavour"], "program": j["args"]["prog"][:400], "objects": x["objects"],
                                    "decisions": sim["steps"], "steals": sim["steals"]})
        self.cov.update({
            "distinct_nontrivial": len(nontrivial),
            "samples": samples, "arms": armcount, "flavours": flcount, "op_counts": opcount, "totals": stats,
            "distinct_program_schedule_pairs": len(hashes),
            "components": {"real": "manifold library, oneTBB header templates", "stub": "oneTBB runtime scheduler (parallel flavours)"},
        })
        self.finish_cov()

    def finish_cov(self):
        pass

    def reproduce(self, replay, fresh=False):
        r = self.run_job({"flavour": replay["flavour"], "kind": replay.get("kind", "prog"), "args": replay["args"], "timeout": replay.get("timeout", 120)}, fresh)
        if not r["ok"]:
            return self.crash_key({"flavour": replay["flavour"], "kind": replay.get("kind", "prog"), "args": replay["args"]}, r), "crash"
        exp = replay.get("expect")
        keys = []
        for v in r["res"]["viol"]:
            if v["prop"] == self.prop:
                keys.append(self.viol_key(v))
            elif v["prop"] == "C09":
                keys.append({"clause": "exception", "detail": v["clause"][:60]})
        h = r["res"]["sim"]["hash"]
        for k in keys:
            if exp is None or key_str(k) == key_str(exp):
                return k, h
        return (keys[0] if keys else None), h

    def minimise(self, finding):
        rep = {k: (dict(v) if isinstance(v, dict) else v) for k, v in finding["replay"].items()}
        want = key_str(finding["key"])
        rep["expect"] = finding["key"]
        a = rep["args"]
        ops = a["prog"].split(";")

        def test(sub):
            k, _ = self.reproduce(dict(rep, args=dict(a, prog=";".join(sub))))
            return k is not None and key_str(k) == want

        ops2, calls = simdrv.ddmin(ops, test, budget=40)
        if test(ops2):
            a = dict(a, prog=";".join(ops2))
        if rep["flavour"].startswith("par"):
            for W in (1, 2):
                if W < a.get("W", 1):
                    k, _ = self.reproduce(dict(rep, args=dict(a, W=W)))
                    if k is not None and key_str(k) == want:
                        a = dict(a, W=W)
                        break
        rep["args"] = a
        rep["minimised"] = {"ops_before": len(ops), "ops_after": len(a["prog"].split(";")), "ddmin_tests": calls}
        return {"key": finding["key"], "desc": finding["desc"] + " [minimised program: %s]" % a["prog"], "replay": rep}
