"""C03 -- a CSG expression denotes one solid however it is built, shared or evaluated.

Exploration over expression DAGs x forcing histories, differential against
eager evaluation; arms ser and par (task_group interleavings in BatchBoolean
are simtbb's)."""
import random
import simdrv
from .base import Check, key_str


class Dag:
    def __init__(self, rng):
        self.rng = rng
        self.leaves = []     # leaf program ops
        self.nleafpool = 0   # pool size after leaves
        self.dag = []        # dag ops
        self.src = []        # per pool index: frozenset of (leaf, tid) surface sources; None = not usable as operand
        self.tid = 0
        self.eq = []

    def R(self):
        return self.rng.randrange(1000)

    def add_leaf(self):
        rng = self.rng
        k = rng.choice(["cube", "sphere", "cyl", "tet", "cube", "sphere"])
        if k == "cube":
            op = "cube:%d,%d,%d,%d" % (self.R(), self.R(), self.R(), rng.randrange(2))
        elif k == "sphere":
            op = "sphere:%d,%d" % (self.R(), rng.randint(1, 3))
        elif k == "cyl":
            op = "cyl:%d,%d,%d,%d,%d" % (self.R(), self.R(), self.R(), rng.randint(0, 12), rng.randrange(2))
        else:
            op = "tet"
        i = len(self.src)
        self.leaves += [op, "rot:%d,%d,%d,%d" % (i, self.R(), self.R(), self.R()), "trans:%d,%d,%d,%d" % (i + 1, self.R(), self.R(), self.R())]
        self.src += [None, None, frozenset([(i, 0)])]

    def node(self, op, sources):
        self.dag.append(op)
        self.src.append(sources)
        return len(self.src) - 1

    def retransform(self, i):
        """Fresh generic transform of node i (new surface identity)."""
        self.tid += 1
        s = frozenset((l, self.tid * 1000 + t) for (l, t) in self.src[i])
        j = self.node("rot:%d,%d,%d,%d" % (i, self.R(), self.R(), self.R()), s)
        self.tid += 1
        s = frozenset((l, self.tid * 1000 + t) for (l, t) in s)
        return self.node("trans:%d,%d,%d,%d" % (j, self.R(), self.R(), self.R()), s)

    def usable(self):
        return [i for i, s in enumerate(self.src) if s is not None]

    def pick_disjoint(self, n):
        """n operands pairwise in general position (re-transforming reused sub-expressions)."""
        out, used = [], frozenset()
        for _ in range(n):
            i = self.rng.choice(self.usable())
            if self.src[i] & used:
                i = self.retransform(i)
            used = used | self.src[i]
            out.append(i)
        return out

    def grow(self):
        rng = self.rng
        k = rng.random()
        if k < 0.45:
            a, b = self.pick_disjoint(2)
            op = rng.choice(["add", "sub", "int", "add", "sub"])
            self.node("%s:%d,%d" % (op, a, b), self.src[a] | self.src[b])
        elif k < 0.55:
            ops = self.pick_disjoint(rng.randint(2, 5) if rng.random() < 0.7 else rng.randint(5, 9))
            s = frozenset().union(*[self.src[i] for i in ops])
            self.node("batch:%d,%s" % (rng.randrange(3), ",".join(map(str, ops))), s)
        elif k < 0.65:
            self.retransform(rng.choice(self.usable()))
        elif k < 0.70:
            i = rng.choice(self.usable())
            self.tid += 1
            s = frozenset((l, self.tid * 1000 + t) for (l, t) in self.src[i])
            self.node(rng.choice(["scale:%d,%d,%d,%d", "mirror:%d,%d,%d,%d"]) % (i, self.R(), self.R(), self.R()), s)
        elif k < 0.76:  # nested unnamed temporaries with non-commuting transforms (collapse paths)
            a, b, c, d_ = self.pick_disjoint(4)
            self.tid += 1
            src = frozenset((l, self.tid * 1000 + t) for i in (a, b, c, d_) for (l, t) in self.src[i])
            same = rng.random() < 0.6
            o = rng.randrange(3)
            ops3 = (o, o, o) if same else (rng.randrange(3), rng.randrange(3), rng.randrange(3))
            self.node("nest:%d,%d,%d,%d,%d,%d,%d,%s" % (ops3 + (a, b, c, d_) + (",".join(str(self.R()) for _ in range(8)),)), src)
        elif k < 0.80:  # (a-b)-c == a-(b+c)
            a, b, c = self.pick_disjoint(3)
            n1 = self.node("sub:%d,%d" % (a, b), self.src[a] | self.src[b])
            n2 = self.node("sub:%d,%d" % (n1, c), self.src[n1] | self.src[c])
            n3 = self.node("add:%d,%d" % (b, c), self.src[b] | self.src[c])
            n4 = self.node("sub:%d,%d" % (a, n3), self.src[a] | self.src[n3])
            self.eq.append((n2, n4))
            self.src[n4] = None if rng.random() < 0.5 else self.src[n4]
        elif k < 0.90:  # nested == batch
            ops = self.pick_disjoint(rng.randint(3, 5) if rng.random() < 0.7 else rng.randint(5, 8))
            kind = rng.choice([0, 0, 2])
            name = "add" if kind == 0 else "int"
            cur = ops[0]
            for o in ops[1:]:
                cur = self.node("%s:%d,%d" % (name, cur, o), self.src[cur] | self.src[o])
            s = frozenset().union(*[self.src[i] for i in ops])
            nb = self.node("batch:%d,%s" % (kind, ",".join(map(str, ops))), s)
            self.eq.append((cur, nb))
            self.src[nb] = None
        elif k < 0.95:  # bbox-disjoint operands (Compose fast path) vs overlapping boxes
            a, b = self.pick_disjoint(2)
            self.node("compose:%d,%d,%d" % (a, b, self.R()), self.src[a] | self.src[b])
        else:  # += chain
            a, b = self.pick_disjoint(2)
            self.node("selfop:%d,%d,%d" % (a, rng.randrange(3), b), self.src[a] | self.src[b])


def make_case(rng):
    d = Dag(rng)
    for _ in range(rng.randint(3, 5)):
        d.add_leaf()
    d.nleafpool = len(d.src)
    target = rng.randint(4, 12)
    while len(d.dag) < target:
        d.grow()
    # forcing history: which intermediates are forced, when, with which getter
    hist = []
    mode = rng.random()
    nd = len(d.dag)
    if mode < 0.25:
        pass  # root only
    elif mode < 0.5:
        for step in range(nd):
            if rng.random() < 0.3:
                hist.append((step, rng.randrange(d.nleafpool, d.nleafpool + step + 1), rng.randrange(4)))
    else:
        for _ in range(rng.randint(1, 6)):
            step = rng.randrange(nd)
            hist.append((step, rng.randrange(d.nleafpool, d.nleafpool + step + 1), rng.randrange(4)))
    hist.sort()
    eq = ["%d:%d" % (a - d.nleafpool, b - d.nleafpool) for a, b in d.eq]
    return {"leaves": ";".join(d.leaves), "dag": ";".join(d.dag), "force": ",".join("%d:%d:%d" % h for h in hist),
            "eq": ",".join(eq)}


class C03(Check):
    prop = "C03"
    level = "exploration"
    flavours = ["ser", "par"]
    assumptions = [
        "leaves are small primitives under generic rotations/translations; a sub-expression is reused only under a fresh generic "
        "transform (general position, as the quantifier states)",
        "both sides of the comparison are outputs of this library; equality of solids is judged by an independent solid-angle "
        "winding number at seeded points farther than delta = max(1000*tolerance, 1e-7) from both surfaces and by volume within "
        "area*delta; identical forcing histories must give bit-identical results",
    ]

    def explore(self):
        rng = random.Random(self.seed * 69621 + 3)
        hashes, nontrivial = set(), set()
        stats = {"dags": 0, "nodes": 0, "comparisons": 0, "points_used": 0, "max_volume_err": 0.0, "steals": 0, "steps": 0, "crashes": 0,
                 "with_equivalences": 0, "forced_histories": 0}
        flcount = {}
        samples = []
        while self.time_left() > 8:
            jobs = []
            for _ in range(128):
                c = make_case(rng)
                fl = rng.choice(["ser", "par"])
                # hook H5: BatchUnion's chunk size (shipped 1000) as a per-run knob, so that the chunked path runs on 3-8 operands
                args = dict(c, points=24, pseed=rng.randrange(1 << 30), mus=rng.choice([0, 0, 2, 3, 4, 6]))
                if fl == "par":
                    args.update({"W": rng.choice([1, 2, 4, 8]), "stay": rng.choice([0, 30, 60, 85]), "own": rng.choice([30, 70, 95]),
                                 "seed": rng.randrange(1, 1 << 30), "thr": rng.choice([64, 16])})
                jobs.append({"flavour": fl, "kind": "c03", "args": args, "timeout": 300})
            res = self.pool.run_all(jobs, deadline=self.deadline)
            for j, r in zip(jobs, res):
                if r.get("skipped"):
                    continue
                if not r["ok"] and r.get("timeout"):
                    stats["timeouts_inconclusive"] = stats.get("timeouts_inconclusive", 0) + 1
                    continue
                if not r["ok"]:
                    stats["crashes"] += 1
                    key = {"clause": "crash_" + simdrv.classify_crash(r)}
                    self.add_finding(key, "worker died: %s" % simdrv.crash_summary(r), {"property": "C03", "flavour": j["flavour"], "args": j["args"]})
                    continue
                x = r["res"]
                self.cov["evaluations"] += 1
                stats["dags"] += 1
                stats["nodes"] += x["nodes"]
                stats["comparisons"] += x["compared"]
                stats["points_used"] += x["points_used"]
                stats["max_volume_err"] = max(stats["max_volume_err"], x["max_volume_err"] or 0)
                stats["steals"] += x["sim"]["steals"]
                stats["steps"] += x["sim"]["steps"]
                if j["args"]["eq"]:
                    stats["with_equivalences"] += 1
                if j["args"]["force"]:
                    stats["forced_histories"] += 1
                flcount[j["flavour"]] = flcount.get(j["flavour"], 0) + 1
                h = "%s|%s|%s" % (hash(j["args"]["dag"]), j["args"]["force"], x["sim"]["hash"])
                hashes.add(h)
                if x["compared"] >= 3:
                    nontrivial.add(h)
                for v in x["viol"]:
                    parts = v["clause"].split(":")
                    key = {"clause": parts[0], "detail": parts[1] if len(parts) > 1 else ""}
                    self.add_finding(key, "DAG leaves=[%s] dag=[%s] force=[%s] eq=[%s] (%s): node %d: %s" % (
                        j["args"]["leaves"], j["args"]["dag"], j["args"]["force"], j["args"]["eq"], j["flavour"], v["node"], v["clause"]),
                        {"property": "C03", "flavour": j["flavour"], "args": j["args"]})
                if len(samples) < 6 and rng.random() < 0.03:
                    samples.append({"flavour": j["flavour"], "dag": j["args"]["dag"], "force": j["args"]["force"], "eq": j["args"]["eq"],
                                    "nodes": x["nodes"], "comparisons": x["compared"]})
        self.cov.update({
            "distinct_nontrivial": len(nontrivial),
            "rule": "one evaluation = one expression DAG built eagerly once and lazily twice under one seeded forcing history, "
                    "compared node by node; distinct = distinct (DAG, forcing history, decision hash); non-trivial = at least 3 node comparisons",
            "samples": samples, "flavours": flcount, "totals": stats,
            "components": {"real": "CSG tree evaluator (ToLeafNode, BatchBoolean, BatchUnion/Compose, lazy transforms), Boolean3",
                           "stub": "oneTBB runtime scheduler (par flavour)"},
        })

    def reproduce(self, replay, fresh=False):
        r = self.run_job({"flavour": replay["flavour"], "kind": "c03", "args": replay["args"], "timeout": 300}, fresh)
        if not r["ok"]:
            return {"clause": "crash_" + simdrv.classify_crash(r)}, "crash"
        exp = replay.get("expect")
        keys = []
        for v in r["res"]["viol"]:
            parts = v["clause"].split(":")
            keys.append({"clause": parts[0], "detail": parts[1] if len(parts) > 1 else ""})
        h = r["res"]["sim"]["hash"]
        for k in keys:
            if exp is None or key_str(k) == key_str(exp):
                return k, h
        return (keys[0] if keys else None), h

    def minimise(self, finding):
        rep = {k: (dict(v) if isinstance(v, dict) else v) for k, v in finding["replay"].items()}
        want = key_str(finding["key"])
        rep["expect"] = finding["key"]
        a = dict(rep["args"])

        def still(b):
            k, _ = self.reproduce(dict(rep, args=b))
            return k is not None and key_str(k) == want

        # drop forcing events, then trailing dag ops (indices are explicit, so only suffixes can be cut safely)
        fl = [f for f in a["force"].split(",") if f]
        if fl:
            fl2, _ = simdrv.ddmin(fl, lambda s: still(dict(a, force=",".join(s))), budget=12)
            if still(dict(a, force=",".join(fl2))):
                a["force"] = ",".join(fl2)
        ops = a["dag"].split(";")
        for cut in range(1, len(ops)):
            b = dict(a, dag=";".join(ops[:cut]))
            if still(b):
                a = b
                break
        rep["args"] = a
        return {"key": finding["key"], "desc": finding["desc"] + " [minimised dag=%s force=%s]" % (a["dag"], a["force"]), "replay": rep}


CHECK = C03()
