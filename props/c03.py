from .base import Check


class Stub(Check):
    prop = "C03"


CHECK = Stub()
