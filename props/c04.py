"""C04 -- results bit-identical across schedules, thread counts and backends.

Deciding step: for each seeded program, every explored schedule of the parallel
build (simtbb: W in 1..16, stay/own bias, seed) must give fingerprints equal,
field for field, to the serial build's."""
import random, time, json
import simdrv, gen
from .base import Check, key_str

WS = [1, 2, 3, 4, 8, 16]
STAYS = [0, 30, 60, 85, 95]
OWNS = [30, 70, 95]


def fp_field_diff(a, b):
    A, B = a.split(" "), b.split(" ")
    for x, y in zip(A, B):
        if x != y:
            k = ""
            for ch in x:
                if ch.isdigit() and len(k) >= 2:
                    break
                k += ch
            # hex hashes contain letters: cut known prefixes
            for p in ("vp", "tv", "mf", "mt", "ri", "ro", "rt", "rf", "fi", "ht", "tol", "bb", "eps", "gt", "st", "nv", "ne",
                      "nt", "nq", "npv", "np", "g", "oid", "nc", "pl", "ar", "bd", "n2v", "n2c"):
                if x.startswith(p) and (len(x) == len(p) or x[len(p)].isdigit() or x[len(p)] in "-abcdef"):
                    k = p
                    break
            return k or x
    return "length" if len(A) != len(B) else ""


def compare(ref, par, known_fn):
    """ref/par: results of job 'prog'. Returns list of divergences
    (step, op, field, tainted_by_known) -- first untainted divergence per
    independent root. Divergent objects taint everything derived from them."""
    out = []
    tainted = set()
    rs, ps = ref["steps"], par["steps"]
    if len(rs) != len(ps):
        return [(min(len(rs), len(ps)), "?", "step_count", False)]
    for i, (a, b) in enumerate(zip(rs, ps)):
        if set(a.get("used", [])) & tainted or set(b.get("used", [])) & tainted:
            tainted.update(a.get("ids", []))
            tainted.update(b.get("ids", []))
            continue
        d = ""
        if a["note"] != b["note"]:
            d = "note"
        elif len(a["fp"]) != len(b["fp"]):
            d = "count"
        else:
            for x, y in zip(a["fp"], b["fp"]):
                if x != y:
                    d = fp_field_diff(x, y)
                    break
        if d:
            out.append((i, a["op"], d))
            tainted.update(a.get("ids", []))
            tainted.update(b.get("ids", []))
    if ref.get("final") != par.get("final") and not out:
        fa, fb = ref.get("final", []), par.get("final", [])
        d = "final_count"
        for x, y in zip(fa, fb):
            if x != y:
                d = fp_field_diff(x, y)
                break
        out.append((len(rs), "final", d))
    return out


def div_key(op, field):
    key = {"clause": "par_differs_from_ser", "op_kind": gen.op_kind(op), "field": field}
    if key["op_kind"] == "levelset":
        a = op.split(":")[1].split(",") if ":" in op else []
        key["sdf"] = str(int(a[2]) % 3) if len(a) > 2 else "0"
    return key


BIG_PREFIX = ["sphere:500,66", "sphere:700,66", "rot:1,123,456,789", "cube:500,500,500,1"]


class C04(Check):
    prop = "C04"
    level = "exploration"
    flavours = ["ser", "par"]
    assumptions = [
        "simtbb replaces only the oneTBB runtime (scheduler); oneTBB 2021.8 header templates and all manifold code run unchanged",
        "schedules produced are a subset of what the TBB contract allows; execution is serialised (one simulated thread at a time)",
        "divergences found only with lowered thresholds (hook H2) are candidates; reported as violations only after reproducing at shipped thresholds",
        "serial reference and parallel build are compiled with the same compiler and flags (-O2 -ffp-contract=off)",
    ]

    def par_args(self, rng, thr):
        return {"W": rng.choice(WS), "stay": rng.choice(STAYS), "own": rng.choice(OWNS), "seed": rng.randrange(1, 1 << 30),
                "thr": thr}

    def make_case(self, rng, arm):
        if arm == "small":
            ops = gen.gen_program(rng, gen.MIX_GENERAL, rng.randint(8, 24), "small")
            thr, lazy, nsched = 64, 0, 3
        elif arm == "medium":
            ops = gen.gen_program(rng, gen.MIX_GENERAL, rng.randint(6, 14), "medium")
            thr, lazy, nsched = 16, 0, 2
        elif arm == "lazy":
            ops = gen.gen_program(rng, gen.MIX_GENERAL, rng.randint(8, 20), "small")
            thr, lazy, nsched = 64, 1, 3
        elif arm == "lattice":
            ops = gen.gen_program(rng, gen.MIX_LATTICE, rng.randint(6, 18), "small", ["lbox:0,0,0,1,1,1", "lbox:1,0,0,0,0,0"])
            thr, lazy, nsched = rng.choice([64, 16]), 0, 3
        elif arm == "cells":
            big = rng.random() < 0.25
            ops = [gen.gen_op(rng, "cellrow", "big" if big else "small") for _ in range(rng.randint(1, 3))]
            ops += gen.gen_program(rng, gen.MIX_LATTICE, rng.randint(2, 6), "small", ["lbox:0,0,0,1,1,1"])[1:]
            thr, lazy, nsched = (1 if big else rng.choice([64, 64, 64, 16])), 0, 6
        elif arm == "merge":
            # objects whose export has clusters of coincident property vertices (sharp normals), then
            # MeshGL::Merge() re-derives the merge vectors (concurrent union-find in PAR builds)
            ops = [gen.gen_op(rng, rng.choice(["cube", "sphere", "cyl", "tet"]), "small") for _ in range(rng.randint(1, 3))]
            for _ in range(rng.randint(1, 3)):
                ops.append(rng.choice(["add:%d,%d", "sub:%d,%d", "compose:%d,%d,5"]) % (rng.randrange(1000), rng.randrange(1000)))
            ops.append("calcnorm:%d,0,%d" % (rng.randrange(1000), rng.randrange(0, 200)))
            if rng.random() < 0.5:
                ops.append("refine:-1,%d" % rng.randrange(3))
            ops.append("mergemesh:-1")
            ops.append("mergemesh:%d" % rng.randrange(1000))
            ops.append("soup:%d,%d,%d" % (rng.randrange(1000), rng.randrange(1000), rng.randrange(3)))
            # a soup of >= 512 vertices crosses the shipped sequential threshold of Merge(): half of the cases run there
            ops.append("sphere:%d,%d" % (rng.randrange(1000), rng.randint(5, 24)))
            ops.append("soup:-1,%d,%d" % (rng.randrange(1000), rng.randrange(3)))
            thr, lazy, nsched = rng.choice([64, 16, 1, 1]), 0, 4
        elif arm == "2d":
            ops = gen.gen_program(rng, gen.MIX_2D, rng.randint(8, 20), rng.choice(["small", "big"]))
            thr, lazy, nsched = rng.choice([1, 64]), 0, 2
        else:  # big: shipped thresholds, meshes above them
            mix = dict(gen.MIX_GENERAL)
            for k in ("minksum", "minkdiff", "refinelen", "refinetol", "levelset"):
                mix[k] = 0
            ops = list(BIG_PREFIX[:3]) + gen.gen_program(rng, mix, rng.randint(3, 6), "big")[2:]
            if rng.random() < 0.3:
                ops.append("levelset:%d,%d,%d,1" % (rng.randrange(1000), rng.randint(0, 60), rng.randrange(3)))
            thr, lazy, nsched = 1, 0, 2
        return {"arm": arm, "ops": ops, "thr": thr, "lazy": lazy, "nsched": nsched}

    def jobs_for(self, rng, case):
        prog = gen.prog_text(case["ops"])
        # hook H5 (BatchUnion chunk size) is a configuration knob: the same value for the reference and the parallel runs
        mus = rng.choice([0, 0, 0, 3, 5]) if case["arm"] in ("small", "lazy", "lattice", "medium") else 0
        base = {"prog": prog, "lazy": case["lazy"], "maxtri": 150000 if case["arm"] == "big" else 60000, "mus": mus}
        jobs = [{"flavour": "ser", "kind": "prog", "args": dict(base, thr=case["thr"]), "timeout": 600, "case": case, "role": "ref"}]
        for si in range(case["nsched"]):
            pa = self.par_args(rng, case["thr"])
            if case["arm"] == "cells":
                pa["W"] = WS[si % len(WS)]  # partition sizes depend on the arena concurrency: cover every worker count
            jobs.append({"flavour": "par", "kind": "prog", "args": dict(base, **pa), "timeout": 900, "case": case, "role": "par"})
        return jobs

    def explore(self):
        rng = random.Random(self.seed * 1000003 + 4)
        quick = self.tier == "quick"
        hashes, nontrivial = set(), set()
        whist, armcount, opcount = {}, {}, {}
        stats = {"steps": 0, "steals": 0, "switches": 0, "tasks": 0, "objects": 0, "tris": 0, "par_runs": 0, "ser_runs": 0,
                 "crashes": 0, "timeouts": 0}
        samples = []
        candidates = []
        rounds = 0
        while self.time_left() > (20 if quick else 60):
            rounds += 1
            cases = []
            arms = (["small"] * 20 + ["lattice"] * 8 + ["cells"] * 10 + ["merge"] * 5 + ["lazy"] * 6 + ["2d"] * 6 + ["medium"] * 4 + ["big"] * (5 if quick else 8))
            for arm in arms:
                cases.append(self.make_case(rng, arm))
            jobs = []
            for c in cases:
                jobs += self.jobs_for(rng, c)
            # big jobs first so that they overlap with the many small ones
            order = sorted(range(len(jobs)), key=lambda i: 0 if jobs[i]["case"]["arm"] == "big" else 1)
            jobs = [jobs[i] for i in order]
            res = self.pool.run_all(jobs, deadline=self.deadline + (60 if quick else 300))
            # group by case
            bycase = {}
            for j, r in zip(jobs, res):
                bycase.setdefault(id(j["case"]), []).append((j, r))
            for lst in bycase.values():
                ref = [x for x in lst if x[0]["role"] == "ref"][0]
                case = ref[0]["case"]
                if ref[1].get("skipped"):
                    continue
                if not ref[1]["ok"]:
                    self.crash_finding(ref[0], ref[1], stats)
                    continue
                stats["ser_runs"] += 1
                self.cov["evaluations"] += 1
                stats["objects"] += ref[1]["res"]["objects"]
                stats["tris"] += ref[1]["res"]["tris"]
                for k, v in ref[1]["res"]["ops"].items():
                    opcount[k] = opcount.get(k, 0) + v
                armcount[case["arm"]] = armcount.get(case["arm"], 0) + 1
                for j, r in lst:
                    if j["role"] != "par" or r.get("skipped"):
                        continue
                    if not r["ok"]:
                        self.crash_finding(j, r, stats)
                        continue
                    self.cov["evaluations"] += 1
                    stats["par_runs"] += 1
                    sim = r["res"]["sim"]
                    for k in ("steps", "steals", "switches", "tasks"):
                        stats[k] += sim[k]
                    hashes.add(sim["hash"])
                    if sim["steals"] > 0:
                        nontrivial.add(sim["hash"])
                    whist[str(j["args"]["W"])] = whist.get(str(j["args"]["W"]), 0) + 1
                    divs = compare(ref[1]["res"], r["res"], None)
                    for (step, op, field) in divs:
                        key = div_key(op, field)
                        replay = {"property": "C04", "program": gen.prog_text(case["ops"]), "lazy": case["lazy"],
                                  "par_args": {k: j["args"][k] for k in ("W", "stay", "own", "seed", "thr")},
                                  "maxtri": j["args"]["maxtri"], "arm": case["arm"], "mus": j["args"].get("mus", 0)}
                        desc = "step %d (%s): field %s differs between serial build and parallel build under schedule seed=%s W=%s" % (
                            step, op, field, j["args"]["seed"], j["args"]["W"])
                        if j["args"]["thr"] != 1 and not simdrv.match_known("C04", key):
                            candidates.append((key, desc, replay, step))
                        else:
                            self.add_finding(key, desc, replay)
                    if len(samples) < 6 and sim["steals"] > 0:
                        samples.append({"arm": case["arm"], "program": gen.prog_text(case["ops"])[:400], "par_args": j["args"] and {
                            k: j["args"][k] for k in ("W", "stay", "own", "seed", "thr")}, "decisions": sim["steps"], "steals": sim["steals"],
                            "decision_hash": sim["hash"]})
        # confirm candidates (lowered thresholds) at shipped thresholds: all scale-up runs of all
        # candidates go through the pool in one batch
        unconfirmed = []
        seen = set()
        todo = []
        for key, desc, replay, step in candidates:
            ks = key_str(key)
            if ks in seen or ks in self.findings_by_key:
                self.finding_counts[ks] = self.finding_counts.get(ks, 0) + 1
                continue
            seen.add(ks)
            todo.append((key, desc, replay, step))
        todo = todo[:12]
        jobs = []
        crng = random.Random(self.seed + 991)
        for ci, (key, desc, replay, step) in enumerate(todo):
            for ti, prog in enumerate(self.scale_up_programs(replay, step)):
                jobs.append({"flavour": "ser", "kind": "prog", "args": {"prog": prog, "thr": 1, "maxtri": 1000000}, "timeout": 600,
                             "cand": ci, "try": ti, "role": "ref"})
                for W in WS:
                    pa = {"W": W, "stay": crng.choice([30, 60]), "own": 70, "seed": crng.randrange(1, 1 << 30), "thr": 1}
                    jobs.append({"flavour": "par", "kind": "prog", "args": dict({"prog": prog, "maxtri": 1000000}, **pa), "timeout": 600,
                                 "cand": ci, "try": ti, "role": "par", "pa": pa, "prog": prog})
        res = self.pool.run_all(jobs) if jobs else []
        confirmed = {}
        refs = {}
        for j, r in zip(jobs, res):
            if j["role"] == "ref" and r.get("ok"):
                refs[(j["cand"], j["try"])] = r["res"]
        for j, r in zip(jobs, res):
            if j["role"] != "par" or not r.get("ok") or j["cand"] in confirmed:
                continue
            ref = refs.get((j["cand"], j["try"]))
            if ref is None:
                continue
            key = todo[j["cand"]][0]
            for (s_, o, f) in compare(ref, r["res"], None):
                if gen.op_kind(o) == key["op_kind"]:
                    confirmed[j["cand"]] = {"property": "C04", "program": j["prog"], "lazy": 0, "par_args": j["pa"], "maxtri": 1000000, "arm": "confirm"}
                    break
        for ci, (key, desc, replay, step) in enumerate(todo):
            if ci in confirmed:
                self.add_finding(key, desc + " [confirmed at shipped thresholds]", confirmed[ci])
            else:
                unconfirmed.append({"key": key, "desc": desc, "replay": replay})
        self.cov.update({
            "distinct_nontrivial": len(nontrivial),
            "rule": "one evaluation = one simulated run of one seeded program (serial reference or parallel build under one "
                    "seeded schedule); distinct = distinct decision hashes (hash of every scheduling decision); non-trivial = "
                    "at least one task was stolen (the schedule differs from serial order)",
            "samples": samples, "distinct_decision_hashes": len(hashes), "W_histogram": whist, "arms": armcount,
            "op_counts": opcount, "totals": stats, "rounds": rounds,
            "threshold_modes": "arms small/lazy/lattice: thresholds/64 (or /16); medium: /16; cells: /64, /16 or shipped on 2500-5500-cell meshes; big and half of 2d: shipped thresholds on meshes above them",
            "unconfirmed_candidates_lowered_thresholds": unconfirmed[:20],
            "components": {"real": "manifold library, oneTBB header templates (parallel_for/reduce/scan/invoke, task_group, combinable, "
                                   "concurrent containers)", "stub": "oneTBB runtime scheduler (simtbb)"},
            "simulated_time": "measured in scheduler decisions (totals.steps); there is no clock in the system",
        })

    def crash_finding(self, job, r, stats):
        cls = simdrv.classify_crash(r)
        if cls == "timeout":
            stats["timeouts"] += 1  # inconclusive: termination is C09's subject
            return
        stats["crashes"] += 1
        key = {"clause": "crash_" + cls, "flavour": job["flavour"]}
        self.add_finding(key, "worker died (%s) running a C04 program in flavour %s: %s" % (cls, job["flavour"], simdrv.crash_summary(r)),
                         {"property": "C04", "crash": True, "flavour": job["flavour"], "args": job["args"]})

    def scale_up_programs(self, replay, step):
        """Programs that apply the diverging op to meshes above the shipped thresholds."""
        ops = replay["program"].split(";")
        if step >= len(ops):
            return []
        op = ops[step]
        rng = random.Random(hash(replay["program"]) & 0xffff)

        def bigger(o):
            """Size-scaled variants of a constructor op."""
            name, _, rest = o.partition(":")
            a = rest.split(",") if rest else []
            if name == "sphere":
                return ["sphere:%s,66" % a[0]]
            if name == "cellrow":
                # 44500 boxes: above the 2^18-vertex threshold of CreateHalfedges' large-vertex-count path
                return ["cellrow:%d,%s,%s" % (m, a[1], a[2]) for m in (3000, 3001, 3002, rng.randint(2500, 5500), 44500)]
            if name == "circle":
                return ["circle:%s,1800" % a[0]]
            if name == "cyl":
                return ["cyl:%s,%s,%s,390,%s" % (a[0], a[1], a[2], a[4])]
            if name == "levelset":
                return ["levelset:%s,20,%s,%s" % (a[0], a[2], a[3])]
            return [o]

        tries = []
        if gen.op_kind(op) in ("sphere", "cellrow", "circle", "cyl", "levelset"):
            for v in bigger(op):
                tries.append(v)
        else:
            tries.append(";".join(BIG_PREFIX + [op]))
            big = []
            for o in ops[:step + 1]:
                big.append(bigger(o)[0])
            tries.append(";".join(big))
        return tries

    def reproduce(self, replay, fresh=False):
        if replay.get("crash"):
            r = self.run_job({"flavour": replay["flavour"], "kind": "prog", "args": replay["args"], "timeout": 900}, fresh)
            if r["ok"]:
                return None, ""
            return {"clause": "crash_" + simdrv.classify_crash(r), "flavour": replay["flavour"]}, "crash"
        base = {"prog": replay["program"], "lazy": replay.get("lazy", 0), "maxtri": replay.get("maxtri", 60000), "mus": replay.get("mus", 0)}
        ref = self.run_job({"flavour": "ser", "kind": "prog", "args": dict(base, thr=replay["par_args"]["thr"]), "timeout": 900}, fresh)
        par = self.run_job({"flavour": "par", "kind": "prog", "args": dict(base, **replay["par_args"]), "timeout": 900}, fresh)
        if not ref["ok"] or not par["ok"]:
            return None, ""
        divs = compare(ref["res"], par["res"], None)
        exp = replay.get("expect")
        for (s, o, f) in divs:
            k = div_key(o, f)
            if exp is None or key_str(k) == key_str(exp):
                return k, par["res"]["sim"]["hash"]
        if divs:
            s, o, f = divs[0]
            return div_key(o, f), par["res"]["sim"]["hash"]
        return None, par["res"]["sim"]["hash"]

    def minimise(self, finding):
        rep = dict(finding["replay"])
        if rep.get("crash"):
            return finding
        want = key_str(finding["key"])
        rep["expect"] = finding["key"]

        def test_ops(ops):
            r = dict(rep, program=";".join(ops))
            k, _ = self.reproduce(r)
            return k is not None and key_str(k) == want

        ops = rep["program"].split(";")
        ops2, calls = simdrv.ddmin(ops, test_ops, budget=40)
        if test_ops(ops2):
            rep["program"] = ";".join(ops2)
        # simpler schedule: fewer workers, calmer policy
        for W in (2, 3, 4):
            if W >= rep["par_args"]["W"]:
                break
            r = dict(rep, par_args=dict(rep["par_args"], W=W))
            k, _ = self.reproduce(r)
            if k is not None and key_str(k) == want:
                rep = r
                break
        for stay in (95, 85):
            if stay <= rep["par_args"]["stay"]:
                continue
            r = dict(rep, par_args=dict(rep["par_args"], stay=stay))
            k, _ = self.reproduce(r)
            if k is not None and key_str(k) == want:
                rep = r
                break
        rep = self.minimise_schedule(rep, want)
        rep["minimised"] = {"ops_before": len(ops), "ops_after": len(rep["program"].split(";")), "ddmin_tests": calls}
        return {"key": finding["key"], "desc": finding["desc"], "replay": rep}

    def minimise_schedule(self, rep, want, budget=24):
        """Turn the seeded schedule into an explicit deviation list and ddmin it."""
        base = {"prog": rep["program"], "lazy": rep.get("lazy", 0), "maxtri": rep.get("maxtri", 60000), "mus": rep.get("mus", 0)}
        r = self.run_job({"flavour": "par", "kind": "prog", "args": dict(base, trace=1, **rep["par_args"]), "timeout": 900})
        if not r["ok"]:
            return rep
        sim = r["res"]["sim"]
        if sim.get("trace_truncated") or "deviations" not in sim:
            return rep
        devs = [d for d in sim["deviations"].split(",") if d]
        if len(devs) > 100000:
            return rep
        pa = dict(rep["par_args"], mode=1)

        def test(dv):
            rr = dict(rep, par_args=dict(pa, script=",".join(dv) if dv else "-"))
            k, _ = self.reproduce(rr)
            return k is not None and key_str(k) == want

        if not test(devs):
            return rep  # scripted replay does not reproduce (should not happen); keep seeded replay
        if test([]):
            devs2 = []
        else:
            devs2, _ = simdrv.ddmin(devs, test, budget=budget)
        out = dict(rep, par_args=dict(pa, script=",".join(devs2) if devs2 else "-"))
        out["schedule_minimised"] = {"deviations_before": len(devs), "deviations_after": len(devs2)}
        return out


CHECK = C04()
