"""One module per claimed property. REGISTRY maps id -> check object."""
from . import c04, c13, c15, c09, c08, c05, c03, c06, c14, c01

REGISTRY = {
    "C01": c01.CHECK, "C03": c03.CHECK, "C04": c04.CHECK, "C05": c05.CHECK, "C06": c06.CHECK,
    "C08": c08.CHECK, "C09": c09.CHECK, "C13": c13.CHECK, "C14": c14.CHECK, "C15": c15.CHECK,
}
