from .base import Check


class Stub(Check):
    prop = "C15"


CHECK = Stub()
