"""C15 -- cancellation is all-or-nothing at every check; progress monotone, ends at 1.

fault_enumeration: for each (scenario, flavour, schedule seed) the uncancelled
run counts the N IsCancelled checks reached (hook H1); then the scenario is
re-executed with the cancel flag set by the k-th check itself, for every k
(stratified sample when N is large)."""
import random
import simdrv, gen
from .base import Check, key_str

EXPR_MIX = {"add": 6, "force": 1, "sub": 6, "int": 3, "batch": 3, "rot": 3, "trans": 3, "scale": 1, "mirror": 1, "compose": 2, "selfop": 2,
            "copy": 1, "settol": 1, "simplify": 1, "warp": 1, "ltrans": 1}
OBS = [("status", 50), ("refine", 6), ("refinelen", 5), ("refinetol", 4), ("hull", 8), ("minksum", 5), ("minkdiff", 3),
       ("frommesh", 5), ("frommesh32", 2), ("smooth", 6), ("levelset", 6)]


def pick_obs(rng):
    tot = sum(w for _, w in OBS)
    r = rng.uniform(0, tot)
    for k, w in OBS:
        r -= w
        if r <= 0:
            return k
    return "status"


def make_scenario(rng):
    obs = pick_obs(rng)
    nset = rng.randint(2, 5)
    setup = []
    for _ in range(nset):
        k = rng.choice(["cube", "sphere", "cyl", "tet", "sphere", "lbox"])
        setup.append(gen.gen_op(rng, k, "small"))
        if rng.random() < 0.6:
            setup.append("rot:%d,%d,%d,%d" % (len(setup) - 1, rng.randrange(1000), rng.randrange(1000), rng.randrange(1000)))
    expr = []
    if obs == "status" or rng.random() < 0.3:
        for _ in range(rng.randint(1, 8)):
            k = gen.pick(rng, EXPR_MIX)
            op = gen.gen_op(rng, k, "small")
            if rng.random() < 0.35 and k in ("add", "sub", "int"):
                # share a sub-expression: both operands (or one) are the latest result
                a = op.split(":")[1].split(",")
                a[0] = '-1'  # the latest result
                op = k + ":" + ",".join(a)
            expr.append(op)
            if rng.random() < 0.25:
                # keep a second handle on the node, then evaluate it before the observed call
                expr.append("copy:-1")
                if rng.random() < 0.8:
                    expr.append("force:%d,%d" % (rng.choice([-1, -2]), rng.randrange(5)))
    if obs in ("minksum", "minkdiff"):
        setup.append("cube:%d,%d,%d,1" % (rng.randrange(100), rng.randrange(100), rng.randrange(100)))
        setup.append("scale:%d,0,0,0" % (len(setup) - 1))
        obs_text = "%s:%d" % (obs, rng.randrange(1000))
        if rng.random() < 0.5:
            setup.insert(0, "hullpts:%d,%d,0" % (rng.randint(4, 20), rng.randrange(1000)))
    elif obs == "levelset":
        obs_text = "levelset:%d,%d,%d,%d" % (rng.randrange(1000), rng.randint(450, 999), rng.randrange(3), rng.randrange(2))
    elif obs == "smooth":
        obs_text = "smooth:%d,%d,%d" % (rng.randrange(2), rng.randrange(1000), rng.randrange(1000))
    elif obs == "status":
        obs_text = "status"
    else:
        obs_text = "%s:%d" % (obs, rng.randrange(1000))
    sc = {"setup": ";".join(setup), "expr": ";".join(expr), "obs": obs_text}
    if rng.random() < 0.3:
        # context reuse: a bigger (or smaller) tree evaluated through the same context first
        n = rng.randint(2, 7)
        prior = ["sphere:%d,%d" % (rng.randrange(1000), rng.randint(1, 3))]
        for i in range(n):
            prior.append("trans:0,%d,%d,%d" % (rng.randrange(1000), rng.randrange(1000), rng.randrange(1000)))
            prior.append("%s:-1,-2" % rng.choice(["add", "sub", "add"]))
        sc["prior"] = ";".join(prior)
    return sc


class C15(Check):
    prop = "C15"
    level = "fault_enumeration"
    flavours = ["ser", "par"]
    assumptions = [
        "the cancel flag is read only at IsCancelled checks, so setting it at check k is equivalent to Cancel() from another "
        "thread at any instant between checks k-1 and k",
        "under the parallel build the order of chunk-level checks is that of the seeded simtbb schedule; the same seed "
        "replays the same order up to the cancel point",
        "Minkowski evaluates several internal batches and resets the counters for each: only bounds and final value of "
        "Progress() are checked there",
    ]

    def explore(self):
        rng = random.Random(self.seed * 104729 + 15)
        quick = self.tier == "quick"
        stats = {"scenarios": 0, "checks_total": 0, "k_tested": 0, "cancelled": 0, "completed": 0, "steps": 0, "exhaustive_scenarios": 0,
                 "crashes": 0, "not_reached": 0}
        obscount, flcount = {}, {}
        sites = set()
        samples = []
        while self.time_left() > 10:
            jobs = []
            for _ in range(64):
                sc = make_scenario(rng)
                fl = rng.choice(["ser", "par", "par"])
                args = dict(sc, maxk=400 if quick else 2000, kseed=rng.randrange(1 << 30), budget_ms=6000 if quick else 40000)
                if rng.random() < 0.3:
                    args["mus"] = rng.choice([2, 3, 4])  # hook H5: chunked BatchUnion (its own cancel check and progress credit)
                if fl == "par":
                    args.update({"W": rng.choice([1, 2, 4, 8]), "stay": rng.choice([30, 60, 85]), "own": 70,
                                 "seed": rng.randrange(1, 1 << 30), "thr": rng.choice([64, 64, 16])})
                jobs.append({"flavour": fl, "kind": "c15", "args": args, "timeout": 600})
            res = self.pool.run_all(jobs, deadline=self.deadline)
            for j, r in zip(jobs, res):
                if r.get("skipped"):
                    continue
                obs = j["args"]["obs"].split(":")[0]
                if not r["ok"] and r.get("timeout"):
                    stats["timeouts_inconclusive"] = stats.get("timeouts_inconclusive", 0) + 1
                    continue
                if not r["ok"]:
                    stats["crashes"] += 1
                    cls = simdrv.classify_crash(r)
                    key = {"clause": "crash_" + cls, "obs": obs}
                    self.add_finding(key, "worker died (%s) in scenario %s: %s" % (cls, j["args"], simdrv.crash_summary(r)),
                                     {"property": "C15", "flavour": j["flavour"], "args": j["args"]})
                    continue
                x = r["res"]
                self.cov["evaluations"] += 1 + x["k_tested"]
                stats["scenarios"] += 1
                stats["checks_total"] += x["checks"]
                stats["k_tested"] += x["k_tested"]
                stats["cancelled"] += x["cancelled"]
                stats["completed"] += x["completed"]
                stats["not_reached"] += x["not_reached"]
                stats["steps"] += x["total_steps"]
                if x["k_tested"] >= x["checks"]:
                    stats["exhaustive_scenarios"] += 1
                obscount[obs] = obscount.get(obs, 0) + 1
                flcount[j["flavour"]] = flcount.get(j["flavour"], 0) + 1
                # a distinct non-trivial case = (scenario, k) whose injected cancel was actually reached and took effect
                sites.add((j["args"]["setup"], j["args"]["expr"], j["args"]["obs"], j["flavour"], x["cancelled"]))
                self.cov["distinct_nontrivial"] += x["cancelled"]
                seen = set()
                for v in x["viol"]:
                    clause = v["clause"].split(":")[0]
                    key = {"clause": clause, "obs": obs}
                    if clause.startswith("completed_result_differs") or clause.startswith("rebuild_with"):
                        pass
                    if key_str(key) in seen:
                        self.finding_counts[key_str(key)] = self.finding_counts.get(key_str(key), 0) + 1
                        continue
                    seen.add(key_str(key))
                    rep_args = dict(j["args"])
                    rep_args["k"] = v["k"] if v["k"] > 0 else 1
                    rep_args.pop("maxk", None)
                    desc = "scenario setup=[%s] expr=[%s] prior=[%s] obs=%s flavour=%s: cancel at check k=%d of %d: %s" % (
                        j["args"]["setup"], j["args"]["expr"], j["args"].get("prior", ""), j["args"]["obs"], j["flavour"], v["k"], x["checks"], v["clause"])
                    self.add_finding(key, desc, {"property": "C15", "flavour": j["flavour"], "args": rep_args, "k": v["k"]})
                if len(samples) < 6 and rng.random() < 0.1:
                    samples.append({"scenario": {k: j["args"][k] for k in ("setup", "expr", "obs")}, "flavour": j["flavour"],
                                    "checks": x["checks"], "k_tested": x["k_tested"], "cancelled": x["cancelled"],
                                    "completed": x["completed"]})
        self.cov.update({
            "rule": "one evaluation = one execution of a scenario (uncancelled, or with Cancel() injected at the k-th "
                    "IsCancelled check); distinct non-trivial = injected runs in which the k-th check was reached and the call "
                    "returned Cancelled (a distinct (scenario, schedule seed, k) crash point that took effect)",
            "samples": samples, "obs_kinds": obscount, "flavours": flcount, "totals": stats,
            "fault_kinds_fired": {"cancel_at_check_k": stats["cancelled"] + stats["completed"]},
            "exhaustive": False,
            "components": {"real": "manifold library incl. all 117 IsCancelled/phase sites", "stub": "oneTBB runtime scheduler (parallel flavour)"},
        })

    def reproduce(self, replay, fresh=False):
        r = self.run_job({"flavour": replay["flavour"], "kind": "c15", "args": replay["args"], "timeout": 600}, fresh)
        obs = replay["args"]["obs"].split(":")[0]
        if not r["ok"]:
            return {"clause": "crash_" + simdrv.classify_crash(r), "obs": obs}, "crash"
        exp = replay.get("expect")
        keys = [{"clause": v["clause"].split(":")[0], "obs": obs} for v in r["res"]["viol"]]
        h = r["res"]["sim"]["hash"] + ":" + str(r["res"]["checks"])
        for k in keys:
            if exp is None or key_str(k) == key_str(exp):
                return k, h
        return (keys[0], h) if keys else (None, h)

    def minimise(self, finding):
        rep = {k: (dict(v) if isinstance(v, dict) else v) for k, v in finding["replay"].items()}
        want = key_str(finding["key"])
        rep["expect"] = finding["key"]
        a = rep["args"]
        a.setdefault("prior", "")

        def still(args):
            k, _ = self.reproduce(dict(rep, args=args))
            return k is not None and key_str(k) == want

        # progress/whole-run clauses do not depend on k; others: keep k but shrink the scenario while the clause persists
        # with *some* k (re-enumerate k after each shrink)
        def still_any_k(args):
            b = dict(args)
            b.pop("k", None)
            b["maxk"] = 200
            b["budget_ms"] = 4000
            return still(b)

        for part in ("prior", "expr", "setup"):
            ops = [o for o in a[part].split(";") if o]
            if len(ops) > 1:
                ops2, _ = simdrv.ddmin(ops, lambda o: still_any_k(dict(a, **{part: ";".join(o)})), budget=16)
                if still_any_k(dict(a, **{part: ";".join(ops2)})):
                    a = dict(a, **{part: ";".join(ops2)})
        # find the concrete k again for the shrunk scenario
        b = dict(a)
        b.pop("k", None)
        b["maxk"] = 400
        r = self.run_job({"flavour": rep["flavour"], "kind": "c15", "args": b, "timeout": 600})
        if r["ok"]:
            for v in r["res"]["viol"]:
                if v["clause"].split(":")[0] == finding["key"]["clause"]:
                    a = dict(b, k=max(1, v["k"]))
                    a.pop("maxk", None)
                    break
        rep["args"] = a
        if not still(a):
            return finding
        return {"key": finding["key"], "desc": finding["desc"] + " [minimised: setup=%s expr=%s obs=%s k=%s]" % (
            a["setup"], a["expr"], a["obs"], a.get("k")), "replay": rep}


CHECK = C15()
