from .base import Check


class Stub(Check):
    prop = "C08"


CHECK = Stub()
