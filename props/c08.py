"""C08 -- MeshGL export and re-import is lossless (fault-free arm of the
storage simulation): every Manifold a seeded program reaches is exported,
passed through SimStore, re-imported and compared on a canonical form that
removes numbering only."""
import gen
from .progbase import ProgCheck

MIX = dict(gen.MIX_GENERAL)
MIX.update({"smoothout": 5, "smoothnorm": 2, "smoothmesh": 2, "calcnorm": 4, "setprops": 4, "add": 7, "sub": 7, "mirror": 3, "asorig": 2,
            "rt64": 2, "rt32": 1, "minksum": 0, "minkdiff": 0, "levelset": 0, "compose": 2, "split": 2, "refine": 3})


class C08(ProgCheck):
    prop = "C08"
    flag = "c08"
    level = "exploration"
    flavours = ["ser", "ser-asan", "par", "par-asan"]
    assumptions = [
        "equality is on a canonical form: one record per triangle (original ID, flags, run transform with an absent transform "
        "read as identity, face ID, three corners with position bits, property bits and the tangent of the halfedge leaving the "
        "corner) rotated to its least corner, records sorted; channels of runs flagged as normals compared after normalisation",
        "the only simulator-owned nondeterminism is the store (fault-free) and, in the parallel flavour, the schedule of the ingest",
    ]
    arms = [
        ("general", 70, {"mix": MIX, "nops": (8, 24), "flavours": ["ser", "ser", "ser-asan", "par"], "thr": [64, 16]}),
    ]

    def finish_cov(self):
        self.cov["rule"] = ("one evaluation = one seeded program with the round-trip oracle applied to every non-empty Manifold it "
                            "materialises (64-bit path, merge-vector sufficiency, Merge(), 32-bit structure); distinct = distinct "
                            "(program, decision hash); non-trivial = at least 3 objects round-tripped")


CHECK = C08()
