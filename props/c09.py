"""C09 -- malformed input gives an error Status, never undefined behaviour.

fault_enumeration: every single storage fault of a fixed enumeration over a
menu of small stored objects (SimStore), every single-byte EOF / error / bit
flip on OBJ text (SimStreambuf), plus seeded multi-fault samples; each imported
object is driven through a consuming program. Runs under ASan+UBSan; a
sanitizer report, crash, hang or escaped exception is a violation."""
import random, re
import simdrv
from .base import Check, key_str

EXTREME = [
    "sphere:657,4;rawhuge:0,2;slice:1,500",
    "sphere:657,4;rawhuge:0,2;project:1",
    "cube:922,41,852,15;sphere:657,4;copy:196;rawhuge:632,617;sub:747,415;force:-1,2",
    "cube:500,500,500,1;rawhuge:0,1;cube:300,300,300,0;add:1,2;force:-1,2",
    "sphere:300,3;rawhuge:0,2;refine:1,2;force:-1,2",
    "sphere:300,3;rawhuge:0,2;hull:1;force:-1,2",
    "sphere:300,3;rawhuge:0,1;smoothout:1,500,500;refine:-1,1;force:-1,2",
    "sphere:300,3;rawhuge:0,2;calcnorm:1,0,500;rt64:-1;force:-1,2",
    "sphere:300,3;rawhuge:0,2;simplify:1,500;decompose:-1;force:-1,2",
    "cube:500,500,500,1;rawhuge:0,2;sphere:300,3;minksum:1,2,0,0",
]
CHUNK = 48
NMENU = 9


def crash_key(r):
    cls = simdrv.classify_crash(r)
    key = {"clause": "crash_" + cls}
    if cls in ("asan", "ubsan") or cls.startswith("signal"):
        key["site"] = simdrv.asan_site(r.get("stderr", ""))
    return key


class C09(Check):
    prop = "C09"
    level = "fault_enumeration"
    flavours = ["ser-asan", "par-asan"]
    assumptions = [
        "faults are applied to the serialised form held outside the library (MeshGL64/MeshGL arrays, OBJ text); numeric "
        "arguments of constructors and operations are not enumerated here",
        "a hang is decided by a wall-clock watchdog in the driver (20 s per range of 48 faults, 10 s per single fault)",
        "ASan+UBSan (without the null/alignment/vptr checks) are the out-of-bounds / overflow oracle",
    ]

    def locate(self, job, budget=40, first_only=False):
        """A range job crashed or hung: bisect to single faults. Returns list of (single job, result)."""
        a = job["args"]
        lo, hi = a["from"], a["to"]
        found = []
        stack = [(lo, hi)]
        while stack and budget > 0 and self.time_left() > -120:
            if first_only and found:
                break
            l, h = stack.pop()
            j = {"flavour": job["flavour"], "kind": job["kind"], "args": dict(a, **{"from": l, "to": h}), "timeout": (4 if h - l == 1 else 8) * (3 if job["flavour"].startswith("par") else 1)}
            r = self.pool.run_one(j)
            budget -= 1
            if r["ok"]:
                self.absorb(j, r)
                continue
            if h - l == 1:
                found.append((j, r))
                continue
            m = (l + h) // 2
            stack.append((m, h))
            stack.append((l, m))
        return found

    def absorb(self, j, r):
        x = r["res"]
        st = self.stats
        if j["kind"] == "prog":  # extreme-coordinate probe that returned normally
            self.cov["evaluations"] += 1
            st["extreme_coordinate_probes_returned"] = st.get("extreme_coordinate_probes_returned", 0) + 1
            return
        self.cov["evaluations"] += x["tested"]
        st["faults_tested"] += x["tested"]
        st["usable_imports"] += x["usable"]
        st["rejected_imports"] += x["rejected"]
        for k, v in x.get("fired", {}).items():
            self.fired[k] = self.fired.get(k, 0) + v
        for k, v in x.get("statuses", {}).items():
            self.statuses[k] = self.statuses.get(k, 0) + v
        if j["kind"] == "c09obj":
            self.fired["obj_" + j["args"]["kind"]] = self.fired.get("obj_" + j["args"]["kind"], 0) + x["tested"]
            st["short_reads"] += x.get("short_reads", 0)
            st["eof_fired"] += x.get("eof_fired", 0)
            st["err_fired"] += x.get("err_fired", 0)
        self.cov["distinct_nontrivial"] += x["rejected"] + (x["usable"] if j["kind"] == "c09" else 0)
        for v in x["viol"]:
            clause = v["clause"]
            parts = clause.split(":")
            key = {"clause": parts[0]}
            if parts[0] in ("error_lost_by", "error_changed_by", "error_result_not_empty") and len(parts) > 1:
                key["op"] = parts[1]
            elif len(parts) > 1:
                key["detail"] = parts[-1].split("(")[0]
            args = dict(j["args"])
            if j["kind"] == "c09":
                args.pop("from", None)
                args.pop("to", None)
                args["faults"] = v["faults"]
            desc = "%s obj=%s faults=[%s] -> status %s: %s" % (j["kind"], j["args"].get("obj"), v["faults"], v["status"], clause)
            self.add_finding(key, desc, {"property": "C09", "kind": j["kind"], "flavour": j["flavour"], "args": args})

    def explore(self):
        rng = random.Random(self.seed * 31337 + 9)
        quick = self.tier == "quick"
        self.stats = {"faults_tested": 0, "usable_imports": 0, "rejected_imports": 0, "range_jobs": 0, "crashed_ranges": 0,
                      "short_reads": 0, "eof_fired": 0, "err_fired": 0, "multi_fault_cases": 0, "objects": 0}
        self.fired, self.statuses = {}, {}
        counts = {}
        res = self.pool.run_all([{"flavour": "ser-asan", "kind": "c09count", "args": {"obj": o}, "timeout": 60} for o in range(NMENU)])
        for o, r in enumerate(res):
            if r["ok"]:
                counts[o] = (r["res"]["faults"], r["res"]["obj_bytes"], r["res"]["smoke"], r["res"]["pairs"])
        self.stats["objects"] = len(counts)
        jobs = []
        # quick: a rotating third of the enumeration per object (by seed); thorough: all
        prio, prio_par = [], []
        for o, (nf, nbytes, nsmoke, npairs) in counts.items():
            stale = (o + 1) % NMENU
            # the smoke set and the coupled-array pairs run completely in every pass, first
            for prec in (64, 32):
                for s0 in range(0, nsmoke, CHUNK):
                    a = {"obj": o, "stale": stale, "set": "smoke", "from": s0, "to": min(nsmoke, s0 + CHUNK), "precision": prec}
                    prio.append({"flavour": "ser-asan", "kind": "c09", "args": a, "timeout": 8})
                    # the same faults with MeshGL::Merge() called on the mesh first (what a caller does with a mesh of
                    # unknown provenance)
                    prio.append({"flavour": "ser-asan", "kind": "c09", "args": dict(a, premerge=1), "timeout": 12})
                if prec == 64:
                    # the same set through the parallel build with every size threshold divided by 4096, so that the
                    # validation passes (all_of / IsManifold / sorts) of these small objects run their parallel code
                    for s0 in range(0, nsmoke, 16):
                        a = {"obj": o, "stale": stale, "set": "smoke", "from": s0, "to": min(nsmoke, s0 + 16), "precision": prec,
                             "W": rng.choice([1, 2, 4]), "thr": 4096, "seed": rng.randrange(1, 1 << 30)}
                        prio_par.append({"flavour": "par-asan", "kind": "c09", "args": a, "timeout": 20})
                if prec == 64 or o % 2 == 0:
                    for s0 in range(0, npairs, CHUNK):
                        a = {"obj": o, "stale": stale, "set": "pairs", "from": s0, "to": min(npairs, s0 + CHUNK), "precision": prec}
                        prio.append({"flavour": "ser-asan", "kind": "c09", "args": a, "timeout": 8})
            for prec in (64, 32):
                starts = list(range(0, nf, CHUNK))
                if prec == 32:
                    starts = [s for i, s in enumerate(starts) if (i + self.seed) % (4 if quick else 2) == 0]
                elif quick:
                    starts = [s for i, s in enumerate(starts) if (i + self.seed + o) % 2 == 0 or o < 2]
                for s in starts:
                    fl = "par-asan" if (s // CHUNK) % 5 == 4 else "ser-asan"
                    a = {"obj": o, "stale": stale, "from": s, "to": min(nf, s + CHUNK), "precision": prec}
                    if fl == "par-asan":
                        a.update({"W": rng.choice([1, 2, 4]), "thr": rng.choice([64, 4096]), "seed": rng.randrange(1, 1 << 30)})
                    jobs.append({"flavour": fl, "kind": "c09", "args": a, "timeout": 8})
            # OBJ stream faults (small objects: all bytes; larger: strided windows)
            if nbytes <= 2200 or not quick:
                for kind in ("eof", "error", "flip"):
                    step = 64 if kind != "flip" else 32
                    for s in range(0, nbytes + 1, step):
                        if quick and nbytes > 900 and (s // step) % 3 != self.seed % 3:
                            continue
                        jobs.append({"flavour": "ser-asan", "kind": "c09obj", "args": {"obj": o, "kind": kind, "from": s,
                                                                                         "to": min(nbytes + 1, s + step)}, "timeout": 8})
            for kind in ("short", "crlf", "plain"):
                jobs.append({"flavour": "ser-asan", "kind": "c09obj", "args": {"obj": o, "kind": kind, "ioseed": rng.randrange(1 << 30),
                                                                                 "shortw": 1}, "timeout": 8})
        for t in range(7):
            for kind in ("plain", "eof"):
                jobs.append({"flavour": "ser-asan", "kind": "c09obj", "args": {"obj": 0, "kind": kind, "text": t}, "timeout": 8})
        # multi-fault samples
        kinds = ["flip", "truncate", "tear", "lose", "dup", "mix", "nan", "inf", "neg", "huge", "setidx", "numprop", "tol", "truncbytes"]
        for _ in range(300 if quick else 3000):
            o = rng.randrange(NMENU)
            fl = []
            for _ in range(rng.randint(2, 4)):
                fl.append("%s:%d,%d,%d,0" % (rng.choice(kinds), rng.randrange(10), rng.randrange(100000), rng.randrange(64)))
            jobs.append({"flavour": rng.choice(["ser-asan", "ser-asan", "par-asan"]), "kind": "c09",
                         "args": {"obj": o, "stale": rng.randrange(NMENU), "faults": ";".join(fl), "precision": rng.choice([64, 64, 32]),
                                  "W": rng.choice([1, 2, 4]), "thr": rng.choice([64, 4096]), "seed": rng.randrange(1, 1 << 30)}, "timeout": 8, "multi": True})
        # numeric arguments at the edge of the double range: finite transforms whose results stay finite (coordinates up to
        # 1.7e308) followed by an operation that has to compute with them
        for body in reversed(EXTREME):  # ten cheap jobs, first in the queue so that no budget cuts them off
            prio.insert(0, {"flavour": "ser-asan", "kind": "prog", "args": {"prog": body}, "timeout": 60})
        rng.shuffle(jobs)
        jobs = prio + prio_par + jobs
        self.stats["smoke_range_jobs"] = len(prio)
        self.stats["smoke_range_jobs_parallel_build"] = len(prio_par)
        results = self.pool.run_all(jobs, deadline=self.deadline)
        samples = []
        ngroup = {}
        for j, r in zip(jobs, results):
            if r.get("skipped"):
                self.stats.setdefault("skipped_jobs", 0)
                self.stats["skipped_jobs"] += 1
                continue
            self.stats["range_jobs"] += 1
            if j.get("multi"):
                self.stats["multi_fault_cases"] += 1
            if r["ok"]:
                self.absorb(j, r)
                if j["kind"] != "prog" and len(samples) < 5 and r["res"]["tested"] > 0 and rng.random() < 0.02:
                    samples.append({"kind": j["kind"], "args": j["args"], "tested": r["res"]["tested"], "rejected": r["res"]["rejected"],
                                    "usable": r["res"]["usable"]})
                continue
            self.stats["crashed_ranges"] += 1
            group = (j["kind"], j["args"].get("kind", ""), "timeout" if r.get("timeout") else "crash")
            ngroup[group] = ngroup.get(group, 0) + 1
            if "from" in j["args"] and j["args"].get("to", 0) - j["args"].get("from", 0) > 1 and "faults" not in j["args"]:
                if r.get("timeout"):
                    # hangs are expensive to bisect: locate the first two ranges of a group, count the others
                    if ngroup[group] > 2:
                        k0 = crash_key(r)
                        self.finding_counts[key_str(k0)] = self.finding_counts.get(key_str(k0), 0) + 1
                        continue
                    singles = self.locate(j, budget=10, first_only=True)
                else:
                    singles = self.locate(j, budget=30 if ngroup[group] < 40 else 8, first_only=ngroup[group] >= 40)
            else:
                singles = [(j, r)]
            for sj, sr in singles:
                key = crash_key(sr)
                desc = "%s obj=%s args=%s: %s" % (sj["kind"], sj["args"].get("obj"), simdrv.fmt_args(sj["args"]),
                                                  simdrv.crash_summary(sr))
                self.add_finding(key, desc, {"property": "C09", "kind": sj["kind"], "flavour": sj["flavour"], "args": sj["args"]})
                self.cov["evaluations"] += 1
                self.cov["distinct_nontrivial"] += 1
        self.cov.update({
            "rule": "one evaluation = one stored object with one fault list applied, imported and driven through the consuming "
                    "program (27 operations + queries); every enumerated fault is distinct by construction; non-trivial = the "
                    "fault actually changed the stored bytes (not_applied cases are excluded) and the import returned",
            "samples": samples or [{"note": "see fault_kinds_fired"}],
            "fault_kinds_fired": self.fired, "import_statuses": self.statuses, "totals": self.stats,
            "enumeration": {str(o): {"single_faults": c[0], "obj_text_bytes": c[1], "smoke_faults_always_run": c[2], "coupled_array_pairs_always_run": c[3]} for o, c in counts.items()},
            "exhaustive": False,
            "components": {"real": "manifold library (MeshGL/MeshGL64 ingest, ReadOBJ/WriteOBJ, all consuming operations)",
                           "stub": "storage between export and import (SimStore byte images, SimStreambuf); oneTBB runtime in par-asan"},
        })

    def reproduce(self, replay, fresh=False):
        r = self.run_job({"flavour": replay["flavour"], "kind": replay["kind"], "args": replay["args"], "timeout": replay.get("timeout", 20)}, fresh)
        exp = replay.get("expect")
        if not r["ok"]:
            return crash_key(r), "crash"
        keys = []
        for v in r["res"]["viol"]:
            parts = v["clause"].split(":")
            key = {"clause": parts[0]}
            if parts[0] in ("error_lost_by", "error_changed_by", "error_result_not_empty") and len(parts) > 1:
                key["op"] = parts[1]
            elif len(parts) > 1:
                key["detail"] = parts[-1].split("(")[0]
            keys.append(key)
        for k in keys:
            if exp is None or key_str(k) == key_str(exp):
                return k, r["res"]["sim"]["hash"]
        return (keys[0] if keys else None), r["res"]["sim"]["hash"]

    def minimise(self, finding):
        rep = {k: (dict(v) if isinstance(v, dict) else v) for k, v in finding["replay"].items()}
        a = rep["args"]
        if "faults" not in a or ";" not in a["faults"]:
            return finding
        want = key_str(finding["key"])
        rep["expect"] = finding["key"]
        fl = a["faults"].split(";")

        def test(sub):
            k, _ = self.reproduce(dict(rep, args=dict(a, faults=";".join(sub))))
            return k is not None and key_str(k) == want

        fl2, _ = simdrv.ddmin(fl, test, budget=12)
        if test(fl2):
            rep["args"] = dict(a, faults=";".join(fl2))
        return {"key": finding["key"], "desc": finding["desc"] + " [minimised faults: %s]" % rep["args"]["faults"], "replay": rep}


CHECK = C09()
