from .base import Check


class Stub(Check):
    prop = "C09"


CHECK = Stub()
