"""C01 -- every returned Manifold is a closed oriented 2-manifold or an empty error.

Safety invariant evaluated on every object the simulation materialises. What
the simulator owns here is the schedule of the parallel topology code
(CreateHalfedges' partitioned branch, PAR-only SplitPinchedVerts/DedupeEdges,
Face2Tri's task_group) at lowered and at shipped thresholds; the program
dimension is sampled as simulation workload (degenerate/coincident operands
over-weighted)."""
import gen
from .progbase import ProgCheck

BIG = ["sphere:500,66", "sphere:700,66", "rot:1,123,456,789"]
MIX_BIG = dict(gen.MIX_GENERAL)
for k in ("minksum", "minkdiff", "refinelen", "refinetol", "levelset", "refine"):
    MIX_BIG[k] = 0


class C01(ProgCheck):
    prop = "C01"
    flag = "c01"
    level = "exploration"
    flavours = ["ser", "par", "par-asan", "ser-asan"]
    assumptions = [
        "the invariant is an independent re-implementation of the statement over GetMeshGL64() + merge vectors",
        "programs are sampled (seeded), not enumerated; lowered thresholds (hook H2) are used to drive the parallel topology "
        "paths on small meshes, the 'big' arm runs them at shipped thresholds",
    ]
    arms = [
        ("lattice", 30, {"mix": gen.MIX_LATTICE, "nops": (6, 20), "flavours": ["ser", "par", "par", "par-asan"], "thr": [64, 64, 16],
                         "seed_ops": ["lbox:0,0,0,1,1,1", "lbox:1,0,0,0,0,0"]}),
        ("general", 30, {"mix": gen.MIX_GENERAL, "nops": (8, 24), "flavours": ["ser", "par", "par", "par-asan"], "thr": [64, 64, 16]}),
        ("constructors", 10, {"mix": dict(gen.MIX_GENERAL, ctor=40, refine=4, warp=4, decompose=4, simplify=4, levelset=0, minksum=0, minkdiff=0),
                              "nops": (4, 12), "flavours": ["ser", "ser", "par"], "thr": [64]}),
        ("lazy", 8, {"mix": gen.MIX_LATTICE, "nops": (6, 16), "flavours": ["ser", "par"], "thr": [64], "extra_args": {"lazy": 1},
                     "seed_ops": ["lbox:0,0,0,1,1,1", "lbox:1,1,0,0,0,0"]}),
        ("big", 3, {"mix": MIX_BIG, "nops": (5, 8), "size": "big", "flavours": ["par"], "thr": [1], "seed_ops": BIG, "timeout": 600, "min_time_left": 90,
                    "extra_args": {"maxtri": 150000}}),
    ]

    def finish_cov(self):
        self.cov["rule"] = ("one evaluation = one simulated run of one seeded program with the invariant checked on every "
                            "materialised Manifold; distinct = distinct (program, decision hash); non-trivial = at least 3 objects materialised")


CHECK = C01()
