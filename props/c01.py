from .base import Check


class Stub(Check):
    prop = "C01"


CHECK = Stub()
