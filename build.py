#!/usr/bin/env python3
"""Builds the simulation worker binary `simrun` for one or more flavours from
/repo's *current working tree* (library sources listed in src/CMakeLists.txt)
plus /verif/sim and /verif/harness, with ninja (incremental).

  build.py [flavour ...]        flavours: ser par ser-asan par-asan par-tsan

Output: /verif/_build/<flavour>/simrun
"""
import os, re, subprocess, sys

VERIF = os.path.dirname(os.path.abspath(__file__))
REPO = os.environ.get("VERIF_REPO", "/repo")
BUILD = os.environ.get("VERIF_BUILD", os.path.join(VERIF, "_build"))

FLAVOURS = {
    # name: (compiler, par, sanitizer flags)
    "ser": ("g++", -1, ""),
    "par": ("g++", 1, ""),
    "ser-asan": ("g++", -1, "-fsanitize=address,undefined -fno-sanitize=vptr,null,alignment -fno-sanitize-recover=undefined"),
    "par-asan": ("g++", 1, "-fsanitize=address,undefined -fno-sanitize=vptr,null,alignment -fno-sanitize-recover=undefined"),
    "par-tsan": ("clang++", 1, "-fsanitize=thread"),
}
ALL = list(FLAVOURS)


def lib_sources():
    txt = open(os.path.join(REPO, "src", "CMakeLists.txt")).read()
    m = re.search(r"set\(\s*MANIFOLD_SRCS(.*?)\)", txt, re.S)
    names = m.group(1).split()
    return [os.path.join(REPO, "src", n) for n in names]


def gen(flavour):
    cxx, par, san = FLAVOURS[flavour]
    out = os.path.join(BUILD, flavour)
    os.makedirs(out, exist_ok=True)
    common = ("-std=c++17 -O2 -g1 -DNDEBUG -fno-omit-frame-pointer -ffp-contract=off -w "
              "-DMANIFOLD_VERIF -DMANIFOLD_PAR=%d -I%s/include -I%s/src -I%s/sim -I%s/harness -pthread"
              % (par, REPO, REPO, VERIF, VERIF))
    lines = ["cxx = %s" % cxx, "cflags = %s %s" % (common, san), "cflags_sched = %s %s" % (
        common, san if "thread" not in san else ""),
        "ldflags = %s -pthread -Wl,--wrap=pthread_mutex_lock,--wrap=pthread_mutex_trylock,--wrap=pthread_mutex_unlock" % san,
        "rule cc", "  command = $cxx $cflags -MMD -MF $out.d -c $in -o $out", "  depfile = $out.d", "  deps = gcc",
        "  description = CXX[%s] $in" % flavour,
        "rule ccsched", "  command = $cxx $cflags_sched -MMD -MF $out.d -c $in -o $out", "  depfile = $out.d",
        "  deps = gcc", "  description = CXX[%s,sched] $in" % flavour,
        "rule link", "  command = $cxx $in -o $out $ldflags", "  description = LINK[%s] $out" % flavour]
    objs = []
    for src in lib_sources():
        o = "lib_" + os.path.basename(src).replace(".cpp", ".o")
        lines.append("build %s: cc %s" % (o, src))
        objs.append(o)
    hdir = os.path.join(VERIF, "harness")
    for f in sorted(os.listdir(hdir)):
        if f.endswith(".cpp"):
            o = "h_" + f.replace(".cpp", ".o")
            lines.append("build %s: cc %s" % (o, os.path.join(hdir, f)))
            objs.append(o)
    lines.append("build simtbb.o: ccsched %s" % os.path.join(VERIF, "sim", "simtbb.cpp"))
    objs.append("simtbb.o")
    lines.append("build simrun: link %s" % " ".join(objs))
    lines.append("default simrun")
    path = os.path.join(out, "build.ninja")
    new = "\n".join(lines) + "\n"
    if not os.path.exists(path) or open(path).read() != new:
        open(path, "w").write(new)
    return out


def build(flavours, quiet=False):
    procs = []
    for fl in flavours:
        out = gen(fl)
        jobs = max(2, 16 // max(1, len(flavours)))
        procs.append((fl, subprocess.Popen(["ninja", "-C", out, "-j", str(jobs)], stdout=subprocess.PIPE,
                                           stderr=subprocess.STDOUT, text=True)))
    ok = True
    for fl, p in procs:
        o, _ = p.communicate()
        if p.returncode != 0:
            ok = False
            sys.stderr.write("BUILD FAILED [%s]\n%s\n" % (fl, o[-6000:]))
        elif not quiet:
            last = [l for l in o.strip().split("\n") if l][-1:]
            print("built %s: %s" % (fl, last[0] if last else "ok"))
    return ok


if __name__ == "__main__":
    fl = sys.argv[1:] or ALL
    for f in fl:
        if f not in FLAVOURS:
            sys.exit("unknown flavour " + f)
    sys.exit(0 if build(fl) else 1)
