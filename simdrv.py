"""Driver-side core: worker pool over the per-flavour `simrun` binaries, build
helper, evidence writer, known-findings matching, ddmin.

Plain python3 (no third-party modules)."""
import json, os, queue, random, select, signal, subprocess, sys, tempfile, threading, time

VERIF = os.path.dirname(os.path.abspath(__file__))
BUILD = os.environ.get("VERIF_BUILD", os.path.join(VERIF, "_build"))
NWORKERS = int(os.environ.get("VERIF_WORKERS", "16"))

sys.path.insert(0, VERIF)
import build as _build


def ensure_built(flavours):
    t0 = time.time()
    ok = _build.build(list(flavours), quiet=True)
    if not ok:
        print("BUILD FAILED for flavours %s" % (flavours,))
        sys.exit(3)
    return time.time() - t0


def binpath(flavour):
    return os.path.join(BUILD, flavour, "simrun")


def fmt_args(args):
    out = []
    for k, v in args.items():
        if v is None or v == "":
            continue
        out.append("%s=%s" % (k, v))
    return " ".join(out)


class Worker:
    def __init__(self, flavour):
        self.flavour = flavour
        self.proc = None
        self.errf = None
        self.start()

    def start(self):
        self.errf = tempfile.TemporaryFile(mode="w+b")
        env = dict(os.environ)
        env.pop("MANIFOLD_OBJ_HEX_FLOAT", None)
        env["MALLOC_ARENA_MAX"] = "1"  # one simulated thread runs at a time; avoids per-thread arena churn
        self.proc = subprocess.Popen([binpath(self.flavour), "worker"], stdin=subprocess.PIPE, stdout=subprocess.PIPE,
                                     stderr=self.errf, env=env, bufsize=0)
        self.buf = b""
        line = self._readline(60)
        if line is None or not line.startswith(b"READY"):
            raise RuntimeError("worker did not start: %r" % line)

    def _readline(self, timeout):
        deadline = time.time() + timeout
        while b"\n" not in self.buf:
            left = deadline - time.time()
            if left <= 0:
                return None
            r, _, _ = select.select([self.proc.stdout], [], [], left)
            if not r:
                return None
            chunk = os.read(self.proc.stdout.fileno(), 1 << 20)
            if not chunk:
                return b""  # EOF: process died
            self.buf += chunk
        line, self.buf = self.buf.split(b"\n", 1)
        return line

    def stderr_tail(self, n=200000):
        try:
            self.errf.seek(0)
            data = self.errf.read()
            return data[-n:].decode("utf-8", "replace")
        except Exception:
            return ""

    def kill(self):
        try:
            self.proc.kill()
        except Exception:
            pass
        try:
            self.proc.wait(timeout=5)
        except Exception:
            pass

    def run(self, jobid, kind, args, timeout):
        """Returns dict: ok/res or crash info."""
        line = "%s %s %s\n" % (jobid, kind, fmt_args(args))
        try:
            self.proc.stdin.write(line.encode())
            self.proc.stdin.flush()
        except (BrokenPipeError, OSError):
            pass
        while True:
            out = self._readline(timeout)
            if out is None:
                self.kill()
                info = {"ok": False, "timeout": True, "exit": None, "stderr": self.stderr_tail()}
                self.start()
                return info
            if out == b"":
                self.proc.wait()
                rc = self.proc.returncode
                info = {"ok": False, "timeout": False, "exit": rc, "stderr": self.stderr_tail()}
                self.start()
                return info
            if out.startswith(b"RESULT "):
                _, jid, payload = out.split(b" ", 2)
                try:
                    res = json.loads(payload.decode("utf-8", "replace"))
                except Exception as e:
                    return {"ok": False, "timeout": False, "exit": None, "stderr": "bad json: %s: %r" % (e, payload[:300])}
                # TSan does not kill the process; collect its reports for this job
                err = ""
                if self.flavour.endswith("tsan"):
                    err = self.stderr_tail(200000)
                    self.errf.seek(0)
                    self.errf.truncate()
                return {"ok": True, "res": res, "stderr": err}
            # any other stdout line is ignored

    def close(self):
        try:
            self.proc.stdin.write(b"quit\n")
            self.proc.stdin.flush()
        except Exception:
            pass
        self.kill()


class OneShotWorker:
    """Runs every job in a brand-new process with ASLR off (used for the TSan
    flavour: TSan reports each race once per process, and some happens-before
    edges depend on heap addresses; a fresh, address-stable process makes the
    verdict a function of the job alone)."""

    def __init__(self, flavour):
        self.flavour = flavour

    def run(self, jobid, kind, args, timeout):
        env = dict(os.environ)
        env["MALLOC_ARENA_MAX"] = "1"
        env["VERIF_NOASLR"] = "1"
        cmd = [binpath(self.flavour), "one", kind] + fmt_args(args).split(" ")
        try:
            p = subprocess.run(cmd, capture_output=True, env=env, timeout=timeout)
        except subprocess.TimeoutExpired as e:
            return {"ok": False, "timeout": True, "exit": None, "stderr": (e.stderr or b"").decode("utf-8", "replace")[-200000:]}
        err = p.stderr.decode("utf-8", "replace")[-400000:]
        for line in p.stdout.split(b"\n"):
            if line.startswith(b"RESULT "):
                try:
                    return {"ok": True, "res": json.loads(line.split(b" ", 2)[2].decode("utf-8", "replace")), "stderr": err}
                except Exception as ex:
                    return {"ok": False, "timeout": False, "exit": p.returncode, "stderr": "bad json %s" % ex}
        return {"ok": False, "timeout": False, "exit": p.returncode, "stderr": err}

    def close(self):
        pass


class Pool:
    """Runs jobs = list of dict(flavour, kind, args, timeout) on long-lived
    workers; returns results in job order. Workers are created lazily per
    flavour and restarted when they die."""

    def __init__(self, nworkers=NWORKERS):
        self.n = nworkers
        self.idle = {}  # flavour -> list of Worker
        self.lock = threading.Lock()
        self.restarts = 0

    def _get(self, flavour):
        with self.lock:
            lst = self.idle.setdefault(flavour, [])
            if lst:
                return lst.pop()
        if flavour.endswith("tsan"):
            return OneShotWorker(flavour)
        return Worker(flavour)

    def _put(self, w):
        with self.lock:
            self.idle.setdefault(w.flavour, []).append(w)

    def run_all(self, jobs, progress=None, deadline=None):
        results = [None] * len(jobs)
        q = queue.Queue()
        for i, j in enumerate(jobs):
            q.put((i, j))

        def work():
            while True:
                try:
                    i, j = q.get_nowait()
                except queue.Empty:
                    return
                if deadline is not None and time.time() > deadline:
                    results[i] = {"ok": False, "skipped": True}
                    continue
                w = self._get(j["flavour"])
                t0 = time.time()
                r = w.run(i, j["kind"], j["args"], j.get("timeout", 300))
                r["wall"] = time.time() - t0
                if not r["ok"]:
                    self.restarts += 1
                results[i] = r
                self._put(w)
                if progress:
                    progress(i, r)

        threads = [threading.Thread(target=work, daemon=True) for _ in range(min(self.n, max(1, len(jobs))))]
        for t in threads:
            t.start()
        for t in threads:
            t.join()
        return results

    def run_one(self, job):
        return self.run_all([job])[0]

    def run_fresh(self, job):
        """Runs one job in a brand-new process (used for the replay gate)."""
        w = OneShotWorker(job["flavour"]) if job["flavour"].endswith("tsan") else Worker(job["flavour"])
        try:
            r = w.run(0, job["kind"], job["args"], job.get("timeout", 300))
        finally:
            w.close()
        return r

    def close(self):
        with self.lock:
            for lst in self.idle.values():
                for w in lst:
                    w.close()
            self.idle = {}


# ---------------------------------------------------------------- known findings
def load_known():
    p = os.path.join(VERIF, "known_findings.json")
    if not os.path.exists(p):
        return []
    return json.load(open(p)).get("findings", [])


def match_known(prop, key):
    """key: dict describing a violation (clause, op_kind, field, site ...). A
    finding matches when status == 'known', same property, and every key/value
    of its 'key' object equals the violation's."""
    for f in load_known():
        if f.get("status") != "known" or f.get("property") != prop:
            continue
        k = f.get("key", {})
        if all(str(key.get(a)) == str(b) for a, b in k.items()):
            return f
    return None


# ---------------------------------------------------------------- ddmin
MIN_DEADLINE = [None]  # wall-clock deadline for all minimisation work of the current check run


def ddmin(items, test, budget=60):
    """Classic ddmin on a list; test(sublist) -> True if the failure persists.
    Bounded by `budget` test calls. Returns a (locally) minimal failing list."""
    calls = [0]

    def t(x):
        if calls[0] >= budget or (MIN_DEADLINE[0] is not None and time.time() > MIN_DEADLINE[0]):
            return False
        calls[0] += 1
        return test(x)

    n = 2
    cur = list(items)
    while len(cur) >= 2 and calls[0] < budget:
        chunk = max(1, len(cur) // n)
        subsets = [cur[i:i + chunk] for i in range(0, len(cur), chunk)]
        reduced = False
        for i in range(len(subsets)):
            comp = [x for j, s in enumerate(subsets) if j != i for x in s]
            if comp and t(comp):
                cur = comp
                n = max(n - 1, 2)
                reduced = True
                break
        if not reduced:
            if n >= len(cur):
                break
            n = min(len(cur), n * 2)
    return cur, calls[0]


# ---------------------------------------------------------------- evidence
def write_evidence(prop, tier, seed, level, coverage, assumptions, wall, violations, extra=None):
    os.makedirs(os.path.join(VERIF, "evidence"), exist_ok=True)
    ev = {"property_id": prop, "tier": tier, "seed": int(seed), "level": level, "coverage": coverage,
          "assumptions": assumptions, "wall_s": round(wall, 2), "violations": int(violations)}
    if extra:
        ev.update(extra)
    path = os.path.join(VERIF, "evidence", "%s.json" % prop)
    tmp = path + ".tmp"
    json.dump(ev, open(tmp, "w"), indent=1, sort_keys=False)
    os.replace(tmp, path)
    return path


def save_replay(prop, name, obj):
    d = os.path.join(VERIF, "replays")
    os.makedirs(d, exist_ok=True)
    path = os.path.join(d, "%s_%s.json" % (prop, name))
    json.dump(obj, open(path, "w"), indent=1)
    return path


def classify_crash(r):
    """Maps a dead worker to a crash class."""
    if r.get("timeout"):
        return "timeout"
    rc = r.get("exit")
    err = r.get("stderr", "")
    if rc == 66:
        return "deadlock"
    if rc == 77 or "AddressSanitizer" in err:
        return "asan"
    if rc == 78 or "runtime error:" in err:
        return "ubsan"
    if rc is not None and rc < 0:
        return "signal%d" % (-rc)
    return "exit%s" % rc


def asan_site(err):
    """First library frame of a sanitizer report as 'file:function' (line numbers move with every edit,
    function names do not), preferring a frame outside the generic container/algorithm headers."""
    import re
    p = err.find("ERROR: AddressSanitizer")
    if p < 0:
        p = err.find("runtime error:")
    if p > 0:
        err = err[p:]
    generic = ("src/parallel.h", "src/vec.h", "src/iters.h", "src/utils.h", "src/atomic_compat.h", "include/manifold/linalg.h",
               "include/manifold/vec_view.h")
    first = None
    for line in err.split("\n"):
        m = re.search(r"#\d+ 0x[0-9a-f]+ in (.+?) /[^\s:]*?/((?:src|include/manifold)/[^\s:/]+):\d+", line)
        if not m:
            continue
        fn = m.group(1)
        fn = re.sub(r"\(.*$", "", fn)            # drop the argument list
        fn = re.sub(r"<.*>", "", fn)              # and template arguments
        fn = fn.split("::")[-1].strip() or "?"
        site = "%s:%s" % (m.group(2), fn)  # path relative to the source tree, wherever it is checked out
        if first is None:
            first = site
        if not site.startswith(generic):
            return site
    if first:
        return first
    m = re.search(r"runtime error: ([^\n]+)", err)
    return m.group(1)[:80] if m else "unknown"


def crash_summary(r, n=400):
    """One-line summary of why a worker died."""
    err = r.get("stderr", "") or ""
    lines = []
    for l in err.split("\n"):
        if "ERROR:" in l or "runtime error" in l or "DEADLOCK" in l or "SUMMARY" in l:
            lines.append(l.strip())
    if not lines:
        lines = [l.strip() for l in err.strip().split("\n")[-3:]]
    return (" | ".join(lines))[:n]
