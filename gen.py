"""Seeded program generators (op lists for harness/ops.h). Everything derives
from the random.Random instance passed in."""
import random

# op -> (arity of int args, special)
ARGN = {
    "cube": 4, "lbox": 6, "cellrow": 4, "mergemesh": 1, "soup": 3, "nest": 15, "speck": 4, "sphere": 2, "cyl": 5, "tet": 0, "levelset": 4, "extrude": 5, "revolve": 4, "hullpts": 3,
    "rot": 4, "rot90": 4, "trans": 4, "ltrans": 4, "scale": 4, "hugescale": 2, "rawhuge": 2, "scratch": 6, "mirror": 4, "xf": 10,
    "add": 2, "sub": 2, "int": 2, "split": 2, "splitplane": 5, "trim": 5, "selfop": 3, "compose": 3,
    "hull": 1, "hull2": 2, "minksum": 4, "minkdiff": 4,
    "refine": 2, "refinelen": 2, "refinetol": 2, "smoothout": 3, "smoothnorm": 2, "smoothmesh": 4, "simplify": 2,
    "settol": 2, "calcnorm": 3, "calccurv": 3, "setprops": 3, "warp": 3, "asorig": 1, "decompose": 1,
    "rt64": 1, "rt32": 1, "rtobj": 1, "copy": 1, "assign": 2, "moveout": 1, "drop": 1, "force": 2,
    "slice": 2, "project": 1,
    "circle": 2, "xmulti": 3, "ctor": 3, "square": 3, "xpoly": 4, "xrot": 2, "xtrans": 3, "xscale": 3, "xmirror": 3, "xadd": 2, "xsub": 2,
    "xint": 2, "xoffset": 4, "xhull": 1, "xsimplify": 2, "xsettol": 2, "xdecompose": 1, "xwarp": 2, "xcopy": 1,
    "xassign": 2, "xforce": 2,
}

# Op mixes. Weights are relative.
MIX_GENERAL = {
    "nest": 2, "speck": 1,
    "cube": 3, "sphere": 4, "cyl": 2, "tet": 1, "levelset": 1, "extrude": 2, "xmulti": 1, "ctor": 2, "revolve": 1, "hullpts": 1,
    "rot": 4, "trans": 3, "scale": 1, "mirror": 1, "xf": 1, "rot90": 1,
    "add": 5, "sub": 5, "int": 3, "batch": 2, "split": 1, "splitplane": 1, "trim": 1, "selfop": 1, "compose": 1,
    "hull": 2, "hull2": 1, "minksum": 1, "minkdiff": 1,
    "refine": 2, "refinelen": 1, "refinetol": 1, "smoothout": 2, "smoothnorm": 1, "smoothmesh": 1, "simplify": 2,
    "settol": 1, "calcnorm": 2, "calccurv": 1, "setprops": 2, "warp": 2, "asorig": 1, "decompose": 1,
    "rt64": 1, "rt32": 1, "mergemesh": 1, "soup": 1, "copy": 1, "assign": 1, "force": 1,
    "slice": 1, "project": 1,
    "circle": 1, "square": 1, "xpoly": 1, "xrot": 1, "xtrans": 1, "xscale": 1, "xadd": 1, "xsub": 1, "xint": 1,
    "xoffset": 1, "xhull": 1, "xsimplify": 1, "xdecompose": 1, "xwarp": 1, "xcopy": 1, "xbatch": 1,
}

# Degenerate / coincident operands (C01)
MIX_LATTICE = {
    "lbox": 8, "cellrow": 2, "speck": 2, "ltrans": 4, "rot90": 3, "copy": 1, "cube": 1, "tet": 1,
    "add": 6, "sub": 6, "int": 4, "batch": 3, "split": 2, "compose": 1, "selfop": 2,
    "hull": 1, "refine": 1, "simplify": 2, "settol": 1, "decompose": 2, "rt64": 1, "mergemesh": 1, "asorig": 1, "smoothout": 1,
    "refinelen": 1, "minksum": 1, "calcnorm": 1, "setprops": 1, "warp": 1, "splitplane": 1, "mirror": 1,
}

# Value-semantics histories (C05)
MIX_HISTORY = dict(MIX_GENERAL)
MIX_HISTORY.update({"hugescale": 1, "scratch": 2, "copy": 3, "assign": 3, "moveout": 1, "drop": 1, "selfop": 3, "xassign": 2, "xcopy": 2, "asorig": 2,
                    "settol": 2, "force": 2, "xforce": 2, "xscale": 3, "xsettol": 1, "levelset": 0, "minksum": 0,
                    "minkdiff": 0})

# 2D heavy (C04 CrossSection arm)
MIX_2D = {"circle": 4, "xmulti": 2, "square": 2, "xpoly": 3, "xrot": 3, "xtrans": 3, "xscale": 1, "xadd": 5, "xsub": 5, "xint": 3,
          "xbatch": 2, "xoffset": 3, "xhull": 1, "xsimplify": 1, "xdecompose": 1, "xwarp": 1, "extrude": 1, "revolve": 1,
          "slice": 1, "project": 1, "sphere": 1, "xmirror": 1}


def pick(rng, mix):
    tot = sum(mix.values())
    r = rng.uniform(0, tot)
    for k, w in mix.items():
        r -= w
        if r <= 0 and w > 0:
            return k
    return next(iter(mix))


def gen_op(rng, name, size="small"):
    """size: 'small' (hundreds of tris), 'medium', 'big' (crosses shipped thresholds)."""
    if name in ("batch", "xbatch"):
        n = rng.randint(2, 7)
        args = [rng.randrange(3)] + [rng.randrange(1000) for _ in range(n)]
        return name + ":" + ",".join(map(str, args))
    n = ARGN[name]
    args = [rng.randrange(1000) for _ in range(n)]
    if name == "sphere":
        if size == "small":
            args[1] = rng.randint(1, 5)      # 4..20 segments: 8..200 tris... n^2*8
        elif size == "medium":
            args[1] = rng.randint(4, 14)
        else:
            args[1] = rng.randint(36, 70)    # 10k..39k tris
    if name == "cyl":
        args[3] = rng.randint(0, 40) if size != "big" else rng.randint(100, 397)
    if name == "circle":
        args[1] = rng.randint(0, 60) if size != "big" else rng.randint(600, 1990)
    if name == "levelset":
        if size == "small":
            args[1] = rng.randint(500, 999)
        elif size == "medium":
            args[1] = rng.randint(250, 700)
        else:
            args[1] = rng.randint(0, 120)
    if name == "refine" and size == "big":
        args[1] = 0
    if name == "hullpts":
        args[0] = rng.randint(0, 59)
    if name == "cellrow":
        args[0] = (rng.randint(2, 300) if rng.random() < 0.5 else rng.randint(300, 2600)) if size != "big" else rng.randint(2500, 5500)
        args[1] = rng.randint(0, 31)
    if n == 0:
        return name
    return name + ":" + ",".join(map(str, args))


def gen_program(rng, mix, nops, size="small", seed_ops=None):
    ops = list(seed_ops) if seed_ops else []
    if not ops:
        ops = [gen_op(rng, "cube", size), gen_op(rng, "sphere", size)]
        if any(k.startswith("x") or k in ("circle", "square", "extrude", "revolve") for k, w in mix.items() if w > 0):
            ops.append(gen_op(rng, "circle", size))
    while len(ops) < nops:
        ops.append(gen_op(rng, pick(rng, mix), size))
    return ops


def prog_text(ops):
    return ";".join(ops)


def op_kind(op_text):
    return op_text.split(":")[0]
