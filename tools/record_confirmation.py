#!/usr/bin/env python3
"""Reads /tmp/confirm_wt_<prop>_<mutant>.log files written by the confirmation
script (apply patch in the sub-agent's scratch worktree, rebuild, full ctest,
run the demonstration with and without the patch) and records the outcome in
/verif/seeded/<prop>-<mutant>/meta.json."""
import glob, json, os, re
for log in glob.glob("/tmp/confirm_wt*_*.log"):
    m = re.match(r"/tmp/confirm_wt\d?_(C\d+)_(.+)\.log", log)
    if not m:
        continue
    d = "/verif/seeded/%s-%s" % (m.group(1), m.group(2))
    if not os.path.exists(d + "/meta.json"):
        continue
    txt = open(log).read()
    tests = re.search(r"(\d+)% tests passed, (\d+) tests failed out of (\d+)", txt)
    w = re.search(r"demo_with_mutant_exit=(\d+)", txt)
    wo = re.search(r"demo_without_mutant_exit=(\d+)", txt)
    meta = json.load(open(d + "/meta.json"))
    if tests and w and wo:
        ok = tests.group(2) == "0" and w.group(1) != "0" and wo.group(1) == "0"
        meta["confirmed"] = {
            "by": "main session, in the scratch worktree %s (removed afterwards)" % os.path.basename(log).split("_")[1].join(["/tmp/",""]),
            "what_was_run": "git apply patch.diff; cmake --build build; ctest --test-dir build -j8 (serial suite); run_demo.sh with the patch; "
                            "git checkout; rebuild; run_demo.sh without the patch",
            "suite_with_mutant": "%s tests, %s failed" % (tests.group(3), tests.group(2)),
            "demo_exit_with_mutant": int(w.group(1)), "demo_exit_without_mutant": int(wo.group(1)), "ok": ok}
        json.dump(meta, open(d + "/meta.json", "w"), indent=1)
        print(os.path.basename(d), "ok" if ok else "NOT CONFIRMED")
    else:
        print(os.path.basename(d), "incomplete log")
