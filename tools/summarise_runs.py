#!/usr/bin/env python3
"""Collects the outcome of the thorough-tier runs and of the benign-change runs of this session
(logs under /tmp) into evidence/thorough_runs.json and evidence/benign_runs.json."""
import glob, json, os, re, datetime

def last_summary(path, chk):
    if not os.path.exists(path):
        return None
    lines = open(path, errors="replace").read().splitlines()
    summ = [l for l in lines if l.startswith(chk + " ")]
    return {"exit_lines": [l[:300] for l in lines if l.startswith("VIOLATION") or l.startswith("HARNESS")][:10],
            "known_finding_lines": len([l for l in lines if l.startswith("KNOWN-FINDING")]),
            "summary": summ[-1] if summ else None}

out = {"at": datetime.datetime.now().isoformat(timespec="seconds"), "rounds": []}
for name, logf, pat in (("first pass (tree at the time: 5330792c..6c759f24, see DESIGN 11.8)", "/tmp/thorough_all.log", "/tmp/thorough_%s.log"),
                        ("second pass on the repaired tree, checks whose oracle or workload changed", "/tmp/thorough2.log", "/tmp/thorough2_%s.log"),
                        ("third pass (C09 after the driver fix: found the hook-H2 grain-size artefact)", "/tmp/thorough3.log", "/tmp/thorough3_%s.log"),
                        ("fourth pass (C09 after the hook lower bound)", "/tmp/thorough4.log", "/tmp/thorough4_%s.log"),
                        ("fifth pass on the final tree (checks whose generators changed after their last thorough run)", "/tmp/thorough5.log", "/tmp/thorough5_%s.log")):
    if not os.path.exists(logf):
        continue
    runs = []
    for l in open(logf):
        m = re.match(r"=== (C\d\d) exit=(\d+) end (\S+)", l)
        if m:
            c = m.group(1)
            runs.append(dict(check=c, exit=int(m.group(2)), ended=m.group(3), **(last_summary(pat % c, c) or {})))
    out["rounds"].append({"what": name, "runs": runs})
json.dump(out, open("/verif/evidence/thorough_runs.json", "w"), indent=1)

ben = {"at": out["at"], "note": "each change applied to a scratch copy of /repo (VERIF_REPO), quick tier of the named check; expected exit 0",
       "runs": []}
for f in sorted(glob.glob("/tmp/exp/benign_queue*.log")):
    for l in open(f):
        m = re.match(r"BENIGN change=(\S+) check=(C\d\d) exit=(\d+) (\d+) violations; (.*)", l)
        if m:
            ben["runs"].append({"change": m.group(1), "check": m.group(2), "exit": int(m.group(3)), "violation_lines": int(m.group(4)),
                                "summary": m.group(5).strip()})
# the run that was repeated because the runner script was edited while it ran
seen = set(); uniq = []
for r in ben["runs"]:
    k = (r["change"], r["check"], r["summary"])
    if k in seen: continue
    seen.add(k); uniq.append(r)
ben["runs"] = uniq
json.dump(ben, open("/verif/evidence/benign_runs.json", "w"), indent=1)
print(len(out["rounds"]), "thorough rounds;", len(ben["runs"]), "benign runs;", sum(1 for r in ben["runs"] if r["exit"] != 0), "non-zero")
