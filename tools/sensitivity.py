#!/usr/bin/env python3
"""Sensitivity of the checks: applies one mutant at a time to /repo's working
tree (textual replacement or a patch file), runs the matching quick check with a
budget, records whether it raised a VIOLATION, and restores the tree
(git checkout -- .). Never commits anything to /repo.

  tools/sensitivity.py [name ...]          built-in mutants (all, or the named ones)
  tools/sensitivity.py --seeded [id ...]   mutants kept under /verif/seeded/<id>/ (patch.diff + meta.json)
Results are appended to /verif/seeded/RESULTS.jsonl."""
import json, os, subprocess, sys, time

VERIF = os.path.dirname(os.path.dirname(os.path.abspath(__file__)))
REPO = "/repo"

# name: (file, old, new, [checks])
MUTANTS = {
    "flagstore-no-sort": ("src/edge_op.cpp", "    stable_sort(autoPolicy(result.size()), result.begin(), result.end());\n    for (size_t x : result) f(x);",
                          "    for (size_t x : result) f(x);", ["C04"]),
    "kernel12-no-resort": ("src/boolean3.cpp", "  Permute(p1q2, i12);\n  Permute(result.x12, i12);\n  Permute(result.v12, i12);\n  return result;",
                           "  return result;", ["C04"]),
    "mergerec-swapped-bounds": ("src/parallel.h", "      auto end = std::lower_bound(src + p2, src + r2, src[q1], comp);",
                                "      auto end = std::upper_bound(src + p2, src + r2, src[q1], comp);", ["C13"]),
    "scan-reverse-join-swapped": ("src/parallel.h", "  void reverse_join(ScanBody& a) { sum = f(a.sum, sum); }",
                                  "  void reverse_join(ScanBody& a) { sum = f(sum, a.sum); }", ["C13"]),
    "copyif-reverse-join-dropped": ("src/parallel.h", "  void reverse_join(CopyIfScanBody& a) { sum = a.sum + sum; }",
                                    "  void reverse_join(CopyIfScanBody& a) { (void)a; }", ["C13"]),
    "sortedrange-join-always-merge": ("src/parallel.h", "    if (src[offset + length - 1] > src[rhs.offset]) {\n      mergeRec(",
                                      "    if (src[offset + length - 1] >= src[rhs.offset] || true) {\n      inTmp = !inTmp;\n      mergeRec(", ["C13"]),
    "sortgeometry-missing-cancel-check": ("src/sort.cpp", "  SortFaces(faceBox, faceMorton, ctx);\n  if (IsCancelled(ctx)) return;",
                                          "  SortFaces(faceBox, faceMorton, ctx);", ["C15"]),
    "toleafnode-no-poison": ("src/csg_tree.cpp", "        if (!frame->op_node->cache_) frame->op_node->cache_ = cancelled;\n", "", ["C15"]),
    "sortgeometry-no-makeunique": ("src/sort.cpp", "  halfedge_.MakeUnique();\n  SortVerts(ctx);", "  SortVerts(ctx);", ["C05"]),
    "leaf-getimpl-no-lock": ("src/csg_tree.cpp", "std::shared_ptr<const Manifold::Impl> CsgLeafNode::GetImpl() const {\n  std::lock_guard<std::mutex> lock(mutex_);",
                             "std::shared_ptr<const Manifold::Impl> CsgLeafNode::GetImpl() const {", ["C06"]),
    "cancollapse-ignores-sharing": ("src/csg_tree.cpp", "          ((op == frame->parent_op && frame->op_node.use_count() <= 2 &&\n            frame->op_node->impl_.UseCount() == 1) ||",
                                    "          ((op == frame->parent_op) ||", ["C03", "C05"]),
    "ingest-no-merge-bound-check": ("src/impl.h", "      if (from >= numVert || to >= numVert) {\n        MakeEmpty(Error::MergeIndexOutOfBounds);\n        return;\n      }\n", "", ["C09"]),
    "export-drops-backside-flag": ("src/impl.h", "    const uint8_t flags = (rel.backSide ? 1u : 0u) | (rel.hasNormals ? 2u : 0u);",
                                   "    const uint8_t flags = (rel.hasNormals ? 2u : 0u);", ["C08"]),
    "internal-boxes-second-arrival-returns": ("src/collider.h", "      if (AtomicAdd(counter_[internal], 1) == 0) return;",
                                              "      if (AtomicAdd(counter_[internal], 1) != 0) return;", ["C14"]),
    "pinched-verts-no-dedupe-sort": ("src/edge_op.cpp", "    manifold::stable_sort(pinched.begin(), pinched.end());\n", "", ["C04", "C01"]),
    "refine-no-cancel-check": ("src/smoothing.cpp", "  SortGeometry(ctx);\n  // SortGeometry bails out mid-way when cancelled, leaving a partially sorted\n  // mesh; its contract requires a cancel check before that output escapes.\n  if (IsCancelled(ctx)) {\n    MakeEmpty(Error::Cancelled);\n    return;\n  }\n",
                               "  SortGeometry(ctx);\n", ["C15"]),
    "unique-chunk-boundary": ("src/parallel.h", "      if (first != outStart && !(*(first - 1) != *newSrcStart)) --first;\n", "", ["C13"]),
    "crosssection-gettolerance-lazy": ("src/cross_section.cpp", "  GetPaths();\n  std::lock_guard<std::mutex> lock(pathsMutex_);\n  return tolerance_;", "  return tolerance_;", ["C05", "C06"]),
}


def sh(cmd, **kw):
    return subprocess.run(cmd, shell=True, capture_output=True, text=True, **kw)


def run_check(check, budget):
    t0 = time.time()
    p = sh("cd %s && ./check %s --tier quick --budget %d --no-min" % (VERIF, check, budget), timeout=3600)
    out = p.stdout + p.stderr
    viol = [l for l in out.split("\n") if l.startswith("violation:") or l.startswith("VIOLATION")]
    return {"check": check, "exit": p.returncode, "violations": viol[:6], "wall_s": round(time.time() - t0, 1),
            "summary": [l for l in out.split("\n") if l.startswith(check + " ")][-1:]}


def restore():
    sh("git -C %s checkout -- ." % REPO)


def main():
    args = sys.argv[1:]
    budget = int(os.environ.get("SENS_BUDGET", "60"))
    results = []
    os.makedirs(os.path.join(VERIF, "seeded"), exist_ok=True)
    if args and args[0] == "--seeded":
        ids = args[1:] or sorted(d for d in os.listdir(os.path.join(VERIF, "seeded")) if os.path.isdir(os.path.join(VERIF, "seeded", d)))
        for mid in ids:
            d = os.path.join(VERIF, "seeded", mid)
            meta = json.load(open(os.path.join(d, "meta.json")))
            restore()
            p = sh("git -C %s apply %s" % (REPO, os.path.join(d, "patch.diff")))
            if p.returncode != 0:
                print("cannot apply %s: %s" % (mid, p.stderr))
                continue
            try:
                for c in meta.get("checks", [meta["property"]]):
                    r = run_check(c, budget)
                    r["mutant"] = mid
                    results.append(r)
                    print(json.dumps(r))
            finally:
                restore()
    else:
        names = args or list(MUTANTS)
        for n in names:
            f, old, new, checks = MUTANTS[n]
            restore()
            path = os.path.join(REPO, f)
            s = open(path).read()
            if s.count(old) != 1:
                print("mutant %s: anchor found %d times, skipped" % (n, s.count(old)))
                continue
            open(path, "w").write(s.replace(old, new))
            try:
                for c in checks:
                    r = run_check(c, budget)
                    r["mutant"] = n
                    results.append(r)
                    print(json.dumps(r))
            finally:
                restore()
    with open(os.path.join(VERIF, "seeded", "RESULTS.jsonl"), "a") as fo:
        for r in results:
            r["at"] = time.strftime("%Y-%m-%dT%H:%M:%S")
            fo.write(json.dumps(r) + "\n")
    # leave the worker binaries matching the restored tree
    sh("cd %s && python3 build.py" % VERIF)


if __name__ == "__main__":
    main()
