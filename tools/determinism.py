#!/usr/bin/env python3
"""Determinism of the simulator itself: every job (one seed = one simulated
run) is executed several times -- in different worker processes, at two
different pool sizes, interleaved with other jobs -- and the complete result
(decision hash, counters, every fingerprint, every verdict) must be identical.

  tools/determinism.py [njobs] [--seed S]
Prints a summary and exits 1 on any divergence."""
import json, os, random, sys, time

VERIF = os.path.dirname(os.path.dirname(os.path.abspath(__file__)))
sys.path.insert(0, VERIF)
os.chdir(VERIF)
import simdrv, gen
from props import c03, c06, c15


def make_jobs(rng, n):
    jobs = []
    for i in range(n):
        k = i % 8
        sched = {"W": rng.choice([1, 2, 3, 4, 8, 16]), "stay": rng.choice([0, 30, 60, 85]), "own": rng.choice([30, 70, 95]),
                 "seed": rng.randrange(1, 1 << 30), "thr": rng.choice([64, 16])}
        if k == 0:
            ops = gen.gen_program(rng, gen.MIX_GENERAL, rng.randint(6, 16), "small")
            jobs.append({"flavour": "par", "kind": "prog", "args": dict({"prog": gen.prog_text(ops), "c01": 1}, **sched)})
        elif k == 1:
            ops = gen.gen_program(rng, gen.MIX_LATTICE, rng.randint(6, 14), "small", ["lbox:0,0,0,1,1,1", "lbox:1,0,0,0,0,0"])
            jobs.append({"flavour": "par", "kind": "prog", "args": dict({"prog": gen.prog_text(ops), "c05": 1, "c08": 1, "obsseed": 5}, **sched)})
        elif k == 2:
            jobs.append({"flavour": "par", "kind": "c13", "args": dict({"case": rng.choice(["sort_cmp", "exclusive_scan_affine", "copy_if", "unique", "reduce", "sort_i64"]),
                                                                    "n": rng.choice([157, 1009, 7919, 20001]), "dseed": rng.randrange(1 << 30), "dist": rng.randrange(6)}, **sched)})
        elif k == 3:
            jobs.append({"flavour": "par", "kind": "c13uf", "args": {"threads": 3, "elems": 7, "ops": 4, "dseed": rng.randrange(1 << 30), "sync": 1,
                                                                     "stay": 20, "seed": rng.randrange(1, 1 << 30), "mode": rng.choice([0, 2])}})
        elif k == 4:
            jobs.append({"flavour": "par", "kind": "c14", "args": dict({"n": rng.choice([7, 33, 257, 1000]), "kind": rng.randrange(8), "queries": 64,
                                                                    "dseed": rng.randrange(1 << 30), "sync": rng.choice([0, 0.01, 0.2])}, **sched)})
        elif k == 5:
            sc = c15.make_scenario(rng)
            jobs.append({"flavour": rng.choice(["ser", "par"]), "kind": "c15", "args": dict(dict(sc, maxk=60, kseed=3), **sched)})
        elif k == 6:
            setup = c06.make_setup(rng)
            plans = [";".join(c06.make_plan(rng, rng.randint(1, 4), None)) for _ in range(3)]
            jobs.append({"flavour": "par", "kind": "c06", "args": {"setup": ";".join(setup), "plans": "|".join(plans), "seed": rng.randrange(1, 1 << 30),
                                                                   "stay": 20, "sync": rng.choice([0.05, 0.3, 1]), "mode": rng.choice([0, 2]), "W": rng.choice([1, 2, 4]), "thr": 64}})
        else:
            c = c03.make_case(rng)
            jobs.append({"flavour": "par", "kind": "c03", "args": dict(dict(c, points=8, pseed=9), **sched)})
        jobs[-1]["timeout"] = 300
    return jobs


def canon(r):
    if not r.get("ok"):
        return "CRASH:%s" % simdrv.classify_crash(r)
    return json.dumps(r["res"], sort_keys=True)


def main():
    n = int(sys.argv[1]) if len(sys.argv) > 1 and sys.argv[1].isdigit() else 240
    seed = int(os.environ.get("VERIF_SEED", "1"))
    simdrv.ensure_built(["ser", "par"])
    rng = random.Random(seed * 7 + 1)
    jobs = make_jobs(rng, n)
    t0 = time.time()
    runs = []
    for size, order_seed in ((16, 1), (5, 2), (11, 3)):
        pool = simdrv.Pool(size)
        idx = list(range(len(jobs)))
        random.Random(order_seed).shuffle(idx)
        res = pool.run_all([jobs[i] for i in idx])
        pool.close()
        out = [None] * len(jobs)
        for i, r in zip(idx, res):
            out[i] = canon(r)
        runs.append(out)
    bad = 0
    hashes = set()
    for i in range(len(jobs)):
        if not (runs[0][i] == runs[1][i] == runs[2][i]):
            bad += 1
            print("DIVERGENCE job %d: %s %s" % (i, jobs[i]["kind"], simdrv.fmt_args(jobs[i]["args"])[:300]))
        hashes.add(runs[0][i])
    print("determinism: %d jobs x 3 executions (pool sizes 16/5/11, shuffled orders), %d distinct results, %d divergences, %.0fs" % (
        len(jobs), len(hashes), bad, time.time() - t0))
    os.makedirs(os.path.join(VERIF, "evidence"), exist_ok=True)
    json.dump({"jobs": len(jobs), "executions_each": 3, "pool_sizes": [16, 5, 11], "distinct_results": len(hashes), "divergences": bad,
               "seed": seed, "at": time.strftime("%Y-%m-%dT%H:%M:%S")}, open(os.path.join(VERIF, "evidence", "determinism.json"), "w"), indent=1)
    sys.exit(1 if bad else 0)


if __name__ == "__main__":
    main()
