// Deterministic simulation runtime: public interface for the harness.
//
// The implementation (simtbb.cpp) replaces the oneTBB *runtime* (the
// tbb::detail::r1 entry points of libtbb.so) by a seeded token-passing
// scheduler over real, parked OS threads. Exactly one simulated thread runs at
// any time; which one is always this scheduler's decision, drawn from one PRNG
// (or from an explicit decision script when replaying a minimised schedule).
#pragma once
#include <cstddef>
#include <cstdint>

namespace sim {

// One scripted deviation from the default policy: at decision number `step`
// choose option `choice` (taken modulo the number of options at that step).
struct Deviation {
  uint64_t step;
  uint32_t choice;
};

struct Config {
  uint64_t seed = 1;
  int workers = 1;        // arena concurrency W (slot 0 = the calling thread)
  int stay = 50;          // % probability of continuing the current thread
  int ownBias = 70;       // % probability of taking own LIFO task when present
  double syncRate = 0.0;  // probability that a fine-grained sync point
                          // (atomic / free mutex) becomes a scheduling decision
  int hotSite = 0;        // a sync-point kind (verif_hooks.h Site, 9 = mutex) that becomes a decision
  double hotRate = 0.0;   // with this probability every time it is passed, whatever syncRate is
  int mode = 0;           // 0 = seeded random, 1 = scripted (deviations),
                          // 2 = PCT-style priorities (client experiments)
  int pctDepth = 2;       // priority change points in mode 2
  uint64_t pctLen = 2000; // expected number of decisions (mode 2)
  uint64_t stepCap = 50000000ull;  // decisions; beyond it the run degrades to
                                   // the default policy and is "inconclusive"
  const Deviation* script = nullptr;
  size_t scriptLen = 0;
  bool recordTrace = false;
};

struct Stats {
  uint64_t steps = 0;        // scheduling decisions taken
  uint64_t switches = 0;     // decisions that changed the running thread
  uint64_t steals = 0;       // tasks taken from another thread's deque
  uint64_t tasks = 0;        // tasks executed
  uint64_t spawns = 0;
  uint64_t syncPoints = 0;   // fine-grained sync points passed
  uint64_t syncYields = 0;   // ... that became decisions
  uint64_t syncBySite[12] = {0, 0, 0, 0, 0, 0, 0, 0, 0, 0, 0, 0};  // per sync-point kind (9 = mutex)
  uint64_t mutexBlocks = 0;  // lock attempts that found the mutex held
  uint64_t hash = 0;         // hash of every decision taken (the interleaving)
  uint64_t nondefault = 0;   // decisions that differ from the default policy
  bool stepCapHit = false;
  bool deadlock = false;
  int maxThreads = 0;
};

// Runs `fn(arg)` as simulated thread 0 with `cfg.workers - 1` pool threads.
// Must be called from a thread that is not itself simulated. Returns when fn
// has returned and all simulated threads have exited.
Stats run(const Config& cfg, void (*fn)(void*), void* arg);

// From inside a simulated thread: start a client thread (an "external thread"
// in TBB terms; gets its own arena slot). It becomes runnable immediately.
void client(void (*fn)(void*), void* arg);
// Blocks (as a scheduling state) until all clients started so far have exited.
void join_clients();

// Fine-grained sync point (sampled according to cfg.syncRate).
void sync_point(int site);
// Unconditional scheduling decision.
void yield_now();

// True while inside run().
bool active();
// Slot of calling simulated thread, -1 if not simulated.
int current_slot();

// Access to the recorded decision trace of the last run (valid until the next
// run): one entry per decision.
struct TraceEntry {
  uint8_t n;       // number of options
  uint8_t chosen;  // option index taken
  uint8_t dflt;    // option index the default policy would take
  uint8_t kind;    // 0 thread choice, 1 task-source choice
};
const TraceEntry* trace(size_t* len, bool* truncated);

}  // namespace sim
