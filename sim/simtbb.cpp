// Deterministic replacement for the oneTBB 2021.8 runtime (tbb::detail::r1) plus
// a seeded token-passing scheduler for simulated threads and wrapped pthread
// mutexes.
//
// THIS TRANSLATION UNIT MUST BE COMPILED WITHOUT -fsanitize=thread: its
// hand-offs (raw futex) must not create happens-before edges, so that TSan
// judges the program's *own* synchronisation. It must not call malloc/new for
// its own data (TSan intercepts them and would pair our blocks with earlier
// instrumented accesses to recycled memory); it allocates from mmap.
#include "sim.h"

#include <linux/futex.h>
#include <oneapi/tbb/cache_aligned_allocator.h>
#include <oneapi/tbb/detail/_task.h>
#include <oneapi/tbb/task_arena.h>
#include <oneapi/tbb/task_group.h>
#include <oneapi/tbb/tbb_allocator.h>
#include <pthread.h>
#include <sys/mman.h>
#include <sys/syscall.h>
#include <unistd.h>

#include <cerrno>
#include <climits>
#include <cmath>
#include <cstdio>
#include <cstdlib>
#include <cstring>
#include <new>

extern "C" {
void __tsan_acquire(void*) __attribute__((weak));
void __tsan_release(void*) __attribute__((weak));
int __real_pthread_mutex_lock(pthread_mutex_t*);
int __real_pthread_mutex_trylock(pthread_mutex_t*);
int __real_pthread_mutex_unlock(pthread_mutex_t*);
}
static inline void ts_acq(void* p) {
  if (__tsan_acquire) __tsan_acquire(p);
}
static inline void ts_rel(void* p) {
  if (__tsan_release) __tsan_release(p);
}

namespace sim {
namespace {

using tbb::detail::d1::task;
using tbb::detail::d1::task_group_context;
using tbb::detail::d1::wait_context;

struct Rng {
  uint64_t s;
  uint64_t next() {
    uint64_t z = (s += 0x9E3779B97F4A7C15ull);
    z = (z ^ (z >> 30)) * 0xBF58476D1CE4E5B9ull;
    z = (z ^ (z >> 27)) * 0x94D049BB133111EBull;
    return z ^ (z >> 31);
  }
  uint32_t below(uint32_t n) { return n <= 1 ? 0 : (uint32_t)(next() % n); }
  double uni() { return (next() >> 11) * (1.0 / 9007199254740992.0); }
};

void* arena_alloc(size_t bytes) {
  void* p = mmap(nullptr, bytes, PROT_READ | PROT_WRITE,
                 MAP_PRIVATE | MAP_ANONYMOUS, -1, 0);
  if (p == MAP_FAILED) {
    fprintf(stderr, "[sim] mmap failed\n");
    _exit(70);
  }
  return p;
}

struct TaskRec {
  task* t;
  task_group_context* ctx;
  intptr_t iso;
  int spawner;
  int arena;
};

struct Deque {
  TaskRec* buf = nullptr;
  size_t cap = 0, head = 0, count = 0;
  void grow() {
    size_t ncap = cap ? cap * 2 : 1024;
    TaskRec* nb = (TaskRec*)arena_alloc(ncap * sizeof(TaskRec));
    for (size_t i = 0; i < count; i++) nb[i] = buf[(head + i) % cap];
    if (buf) munmap(buf, cap * sizeof(TaskRec));
    buf = nb;
    cap = ncap;
    head = 0;
  }
  bool empty() const { return count == 0; }
  void push_back(const TaskRec& r) {
    if (count == cap) grow();
    buf[(head + count) % cap] = r;
    count++;
  }
  TaskRec& back() { return buf[(head + count - 1) % cap]; }
  TaskRec& front() { return buf[head]; }
  void pop_back() { count--; }
  void pop_front() {
    head = (head + 1) % cap;
    count--;
  }
  void clear() { head = count = 0; }
  TaskRec& at(size_t i) { return buf[(head + i) % cap]; }
  const TaskRec& at(size_t i) const { return buf[(head + i) % cap]; }
  // removes element i (0 = front) keeping the order of the others
  void erase(size_t i) {
    for (size_t k = i; k + 1 < count; k++) at(k) = at(k + 1);
    count--;
  }
};

enum St { UNUSED, NOTSTARTED, RUNNING, READY, INLOOP, BLOCKED, JOINWAIT, EXITED };
constexpr int kMaxThreads = 64;

struct Thread {
  int slot = 0;
  St st = UNUSED;
  Deque dq;
  intptr_t iso = 0;
  int arena = -1;  // arena whose tasks this thread may take; -1 = any
  wait_context* waiting = nullptr;
  bool pool = false, client = false, root = false;
  pthread_mutex_t* blockedOn = nullptr;
  int go = 0;  // futex word
  int prio = 0;
  pthread_t th = 0;
  bool joined = true;
  void (*fn)(void*) = nullptr;
  void* arg = nullptr;
};

Thread g_t[kMaxThreads];
int g_n = 0;
Config g_cfg;
Stats g_st;
Rng g_rngDecide{1}, g_rngCount{1}, g_rngPct{1};
bool g_active = false, g_shutdown = false;
uint64_t g_countdown = 0;
size_t g_scriptPos = 0;
uint64_t g_pctPoints[8];
int g_pctN = 0, g_pctLow = 0;
TraceEntry* g_trace = nullptr;
size_t g_traceLen = 0;
constexpr size_t kTraceCap = 1u << 24;
bool g_traceTrunc = false;
thread_local Thread* tl_me = nullptr;

void fwait(int* a, int v) {
  syscall(SYS_futex, a, FUTEX_WAIT_PRIVATE, v, nullptr, nullptr, 0);
}
void fwake(int* a) {
  syscall(SYS_futex, a, FUTEX_WAKE_PRIVATE, INT_MAX, nullptr, nullptr, 0);
}
void park(Thread* me) {
  while (__atomic_load_n(&me->go, __ATOMIC_ACQUIRE) == 0) fwait(&me->go, 0);
  __atomic_store_n(&me->go, 0, __ATOMIC_RELAXED);
}
void unpark(Thread* w) {
  __atomic_store_n(&w->go, 1, __ATOMIC_RELEASE);
  fwake(&w->go);
}

bool wait_done(wait_context* w) {
  auto* p = reinterpret_cast<std::atomic<std::uint64_t>*>(
      reinterpret_cast<char*>(w) + 8);
  return p->load(std::memory_order_acquire) == 0;
}

bool eligible(const Thread* thief, const TaskRec& r) {
  if (thief->arena >= 0 && thief->arena != r.arena) return false;
  return thief->iso == 0 || thief->iso == r.iso;
}

// As in oneTBB's task pools: a thread takes from the tail of its own pool and a thief from the head of
// the victim's, and both skip over tasks they may not run (other isolation region, other arena) instead of
// stopping at them.
long find_own(const Thread* me) {
  for (size_t i = me->dq.count; i-- > 0;)
    if (eligible(me, me->dq.at(i))) return (long)i;
  return -1;
}
long find_steal(const Thread* thief, const Thread* v) {
  for (size_t i = 0; i < v->dq.count; i++)
    if (eligible(thief, v->dq.at(i))) return (long)i;
  return -1;
}

bool has_work(Thread* w) {
  if (find_own(w) >= 0) return true;
  for (int i = 0; i < g_n; i++) {
    Thread* v = &g_t[i];
    if (v != w && find_steal(w, v) >= 0) return true;
  }
  return false;
}

bool all_clients_exited() {
  for (int i = 0; i < g_n; i++)
    if (g_t[i].client && g_t[i].st != EXITED) return false;
  return true;
}

bool enabled(Thread* w) {
  switch (w->st) {
    case READY:
      return true;
    case INLOOP:
      return (w->waiting && wait_done(w->waiting)) || has_work(w) ||
             (w->pool && !w->waiting && g_shutdown);
    case JOINWAIT:
      return all_clients_exited();
    default:
      return false;  // BLOCKED threads become READY on unlock
  }
}

void logev(uint64_t a) {
  g_st.hash ^= a;
  g_st.hash *= 1099511628211ull;
}

[[noreturn]] void deadlock(const char* where) {
  fprintf(stderr, "[sim] DEADLOCK (%s): no enabled thread; seed=%llu\n", where,
          (unsigned long long)g_cfg.seed);
  for (int i = 0; i < g_n; i++)
    fprintf(stderr, "[sim]   slot %d state %d blockedOn %p pool %d client %d iso %lx arena %d deque %zu (front iso %lx, back iso %lx) waiting %p refs %llu\n",
            g_t[i].slot, (int)g_t[i].st, (void*)g_t[i].blockedOn,
            (int)g_t[i].pool, (int)g_t[i].client, (unsigned long)g_t[i].iso, g_t[i].arena, g_t[i].dq.count,
            g_t[i].dq.count ? (unsigned long)g_t[i].dq.front().iso : 0ul, g_t[i].dq.count ? (unsigned long)g_t[i].dq.back().iso : 0ul,
            (void*)g_t[i].waiting,
            g_t[i].waiting ? (unsigned long long)reinterpret_cast<std::atomic<std::uint64_t>*>(reinterpret_cast<char*>(g_t[i].waiting) + 8)->load() : 0ull);
  fflush(stderr);
  _exit(66);
}

// kind 0: thread choice (values = slots), kind 1: task source (values: -1 own,
// else victim slot). `dflt` = index the default policy takes; `biasIdx` = the
// index favoured by the random policy (current thread / own deque) or -1.
int decide(int kind, const int* values, int n, int dflt, int biasIdx,
           int biasPct) {
  int c = dflt;
  if (n > 1) {
    const uint64_t step = g_st.steps++;
    if (g_st.steps > g_cfg.stepCap) {
      g_st.stepCapHit = true;
    } else if (g_cfg.mode == 1) {
      while (g_scriptPos < g_cfg.scriptLen &&
             g_cfg.script[g_scriptPos].step < step)
        g_scriptPos++;
      if (g_scriptPos < g_cfg.scriptLen &&
          g_cfg.script[g_scriptPos].step == step) {
        c = (int)(g_cfg.script[g_scriptPos].choice % (uint32_t)n);
        g_scriptPos++;
      }
    } else if (g_cfg.mode == 2 && kind == 0) {
      for (int i = 0; i < g_pctN; i++)
        if (g_pctPoints[i] == step && tl_me) tl_me->prio = g_pctLow--;
      int best = 0;
      for (int i = 1; i < n; i++)
        if (g_t[values[i]].prio > g_t[values[best]].prio) best = i;
      c = best;
    } else {
      if (biasIdx >= 0 && (int)g_rngDecide.below(100) < biasPct)
        c = biasIdx;
      else
        c = (int)g_rngDecide.below((uint32_t)n);
    }
    if (c != dflt) g_st.nondefault++;
    if (g_cfg.recordTrace) {
      if (g_traceLen < kTraceCap)
        g_trace[g_traceLen++] = {(uint8_t)n, (uint8_t)c, (uint8_t)dflt,
                                 (uint8_t)kind};
      else
        g_traceTrunc = true;
    }
    logev(((uint64_t)kind << 16) ^ ((uint64_t)n << 8) ^
          (uint64_t)(values[c] + 2));
  }
  return c;
}

// Only the token holder calls this. Chooses the next runner; parks `me`
// unless chosen.
void yield_from(Thread* me) {
  int en[kMaxThreads];
  int n = 0, meIdx = -1;
  for (int i = 0; i < g_n; i++)
    if (enabled(&g_t[i])) {
      if (&g_t[i] == me) meIdx = n;
      en[n++] = i;
    }
  if (n == 0) deadlock("yield");
  const int c = decide(0, en, n, meIdx >= 0 ? meIdx : 0, meIdx, g_cfg.stay);
  Thread* nx = &g_t[en[c]];
  if (nx != me) {
    g_st.switches++;
    unpark(nx);
    park(me);
  }
}

void sched_point(Thread* me) {
  me->st = READY;
  yield_from(me);
  me->st = RUNNING;
}

uint64_t draw_countdown() {
  const double r = g_cfg.syncRate;
  if (r >= 1.0) return 1;
  double u = g_rngCount.uni();
  if (u <= 0) u = 1e-300;
  double k = std::floor(std::log(u) / std::log(1.0 - r));
  if (k > 1e15) k = 1e15;
  return 1 + (uint64_t)k;
}

void fine_sync(Thread* me, int site = 9) {
  g_st.syncPoints++;
  g_st.syncBySite[site >= 0 && site < 12 ? site : 0]++;
  if (g_cfg.hotSite != 0 && site == g_cfg.hotSite && g_cfg.hotRate > 0.0 && g_rngCount.uni() < g_cfg.hotRate) {
    g_st.syncYields++;
    sched_point(me);
    return;
  }
  if (g_cfg.syncRate <= 0.0) return;
  if (--g_countdown > 0) return;
  g_countdown = draw_countdown();
  g_st.syncYields++;
  sched_point(me);
}

void run_task(Thread* me, const TaskRec& r) {
  tbb::detail::d1::execution_data ed;
  ed.context = r.ctx;
  ed.original_slot = (tbb::detail::d1::slot_id)r.spawner;
  ed.affinity_slot = tbb::detail::d1::no_slot;
  const intptr_t savedIso = me->iso;
  const int savedArena = me->arena;
  if (me->iso == 0) me->iso = r.iso;
  me->arena = r.arena;
  task* t = r.t;
  ts_acq(t);
  while (t) {
    g_st.tasks++;
    task* n = t->execute(ed);
    ed.original_slot = (tbb::detail::d1::slot_id)me->slot;
    t = n;
  }
  me->iso = savedIso;
  me->arena = savedArena;
}

void dispatch(Thread* me, wait_context* w) {
  for (;;) {
    me->st = INLOOP;
    me->waiting = w;
    yield_from(me);
    me->st = RUNNING;
    me->waiting = nullptr;
    if (w && wait_done(w)) {
      ts_acq(reinterpret_cast<char*>(w) + 8);
      return;
    }
    if (me->pool && !w && g_shutdown) return;
    int src[kMaxThreads + 1];
    int n = 0;
    bool own = false;
    if (find_own(me) >= 0) {
      src[n++] = -1;
      own = true;
    }
    for (int i = 0; i < g_n; i++) {
      Thread* v = &g_t[i];
      if (v != me && find_steal(me, v) >= 0) src[n++] = i;
    }
    if (n == 0) continue;
    const int c = decide(1, src, n, 0, own ? 0 : -1, g_cfg.ownBias);
    TaskRec r;
    if (src[c] == -1) {
      const long k = find_own(me);
      r = me->dq.at((size_t)k);
      me->dq.erase((size_t)k);
    } else {
      Thread* v = &g_t[src[c]];
      const long k = find_steal(me, v);
      r = v->dq.at((size_t)k);
      v->dq.erase((size_t)k);
      g_st.steals++;
    }
    run_task(me, r);
  }
}

void pass_token_at_exit(Thread* me) {
  int en[kMaxThreads];
  int n = 0;
  for (int i = 0; i < g_n; i++)
    if (enabled(&g_t[i])) en[n++] = i;
  if (n == 0) deadlock("thread exit");
  const int c = decide(0, en, n, 0, -1, 0);
  (void)me;
  unpark(&g_t[en[c]]);
}

void* thread_main(void* p) {
  Thread* me = static_cast<Thread*>(p);
  tl_me = me;
  park(me);
  me->st = RUNNING;
  if (me->pool) {
    if (!g_shutdown) dispatch(me, nullptr);
    me->st = EXITED;
    return nullptr;
  }
  me->fn(me->arg);
  if (me->root) {
    if (!all_clients_exited()) {
      fprintf(stderr, "[sim] root returned with live clients\n");
      _exit(71);
    }
    me->st = EXITED;
    g_shutdown = true;
    for (int i = 0; i < g_n; i++)
      if (g_t[i].pool) unpark(&g_t[i]);
    return nullptr;
  }
  me->st = EXITED;
  pass_token_at_exit(me);
  return nullptr;
}

Thread* add_thread() {
  if (g_n >= kMaxThreads) {
    fprintf(stderr, "[sim] too many threads\n");
    _exit(72);
  }
  Thread* t = &g_t[g_n];
  Deque keep = t->dq;
  *t = Thread();
  t->dq = keep;
  t->dq.clear();
  t->slot = g_n++;
  t->st = NOTSTARTED;
  t->prio = 1000 + (int)g_rngPct.below(1000000);
  if (g_n > g_st.maxThreads) g_st.maxThreads = g_n;
  return t;
}

void start(Thread* t) {
  t->joined = false;
  pthread_attr_t a;
  pthread_attr_init(&a);
  pthread_attr_setstacksize(&a, 24u << 20);
  if (pthread_create(&t->th, &a, thread_main, t) != 0) {
    fprintf(stderr, "[sim] pthread_create failed\n");
    _exit(73);
  }
  pthread_attr_destroy(&a);
}

Thread* me_or_die(const char* what) {
  Thread* me = tl_me;
  if (!me) {
    fprintf(stderr, "[sim] %s called from a thread outside the simulation\n",
            what);
    abort();
  }
  return me;
}

}  // namespace

Stats run(const Config& cfg, void (*fn)(void*), void* arg) {
  if (g_active || tl_me) {
    fprintf(stderr, "[sim] nested run\n");
    abort();
  }
  g_cfg = cfg;
  if (g_cfg.workers < 1) g_cfg.workers = 1;
  if (g_cfg.workers > 32) g_cfg.workers = 32;
  g_st = Stats();
  g_st.hash = 1469598103934665603ull;
  g_rngDecide.s = cfg.seed * 0x9E3779B97F4A7C15ull + 1;
  g_rngCount.s = cfg.seed * 0xD1B54A32D192ED03ull + 2;
  g_rngPct.s = cfg.seed * 0x8CB92BA72F3D8DD7ull + 3;
  g_countdown = (cfg.syncRate > 0) ? draw_countdown() : 0;
  g_scriptPos = 0;
  g_shutdown = false;
  g_n = 0;
  g_pctN = cfg.pctDepth < 0 ? 0 : (cfg.pctDepth > 8 ? 8 : cfg.pctDepth);
  g_pctLow = 100;
  for (int i = 0; i < g_pctN; i++)
    g_pctPoints[i] = g_rngPct.next() % (cfg.pctLen ? cfg.pctLen : 1);
  if (cfg.recordTrace && !g_trace)
    g_trace = (TraceEntry*)arena_alloc(kTraceCap * sizeof(TraceEntry));
  g_traceLen = 0;
  g_traceTrunc = false;
  g_active = true;

  Thread* root = add_thread();
  root->root = true;
  root->fn = fn;
  root->arg = arg;
  root->arena = 0;
  for (int i = 1; i < g_cfg.workers; i++) {
    Thread* w = add_thread();
    w->pool = true;
    w->st = INLOOP;
  }
  for (int i = 0; i < g_n; i++) start(&g_t[i]);
  unpark(root);
  for (int i = 0; i < g_n; i++)
    if (!g_t[i].joined) {
      pthread_join(g_t[i].th, nullptr);
      g_t[i].joined = true;
    }
  g_active = false;
  return g_st;
}

void client(void (*fn)(void*), void* arg) {
  me_or_die("client");
  Thread* w = add_thread();
  w->client = true;
  w->fn = fn;
  w->arg = arg;
  w->arena = w->slot;
  w->st = READY;
  start(w);
}

void join_clients() {
  Thread* me = me_or_die("join_clients");
  me->st = JOINWAIT;
  yield_from(me);
  me->st = RUNNING;
  for (int i = 0; i < g_n; i++)
    if (g_t[i].client && !g_t[i].joined) {
      pthread_join(g_t[i].th, nullptr);
      g_t[i].joined = true;
    }
}

void sync_point(int site) {
  Thread* me = tl_me;
  if (!me || !g_active) return;
  fine_sync(me, site);
}

void yield_now() {
  Thread* me = tl_me;
  if (!me || !g_active) return;
  sched_point(me);
}

bool active() { return g_active; }
int current_slot() { return tl_me ? tl_me->slot : -1; }

const TraceEntry* trace(size_t* len, bool* truncated) {
  *len = g_traceLen;
  *truncated = g_traceTrunc;
  return g_trace;
}

}  // namespace sim

// ---- pthread mutex wrapping (final link uses -Wl,--wrap=...) ----
extern "C" int __wrap_pthread_mutex_lock(pthread_mutex_t* m) {
  sim::Thread* me = sim::tl_me;
  if (!me || !sim::g_active) return __real_pthread_mutex_lock(m);
  sim::fine_sync(me);
  for (;;) {
    int rc = __real_pthread_mutex_trylock(m);
    if (rc != EBUSY) return rc;
    sim::g_st.mutexBlocks++;
    me->st = sim::BLOCKED;
    me->blockedOn = m;
    sim::yield_from(me);
    me->st = sim::RUNNING;
    me->blockedOn = nullptr;
  }
}
extern "C" int __wrap_pthread_mutex_trylock(pthread_mutex_t* m) {
  sim::Thread* me = sim::tl_me;
  if (me && sim::g_active) sim::fine_sync(me);
  return __real_pthread_mutex_trylock(m);
}
extern "C" int __wrap_pthread_mutex_unlock(pthread_mutex_t* m) {
  int rc = __real_pthread_mutex_unlock(m);
  sim::Thread* me = sim::tl_me;
  if (me && sim::g_active) {
    for (int i = 0; i < sim::g_n; i++)
      if (sim::g_t[i].st == sim::BLOCKED && sim::g_t[i].blockedOn == m)
        sim::g_t[i].st = sim::READY;
    sim::fine_sync(me);
  }
  return rc;
}

// ---- oneTBB runtime entry points ----
namespace tbb {
namespace detail {
namespace r1 {
struct task_group_context_impl {
  static std::atomic<std::uint32_t>& canc(d1::task_group_context& c) {
    return c.my_cancellation_requested;
  }
  static void init(d1::task_group_context& c) {
    c.my_cpu_ctl_env = 0;
    c.my_cancellation_requested = 0;
    c.my_may_have_children = 0;
    c.my_state = d1::task_group_context::state::created;
    c.my_parent = nullptr;
    c.my_context_list = nullptr;
    c.my_exception = nullptr;
    c.my_itt_caller = nullptr;
  }
};
void initialize(d1::task_group_context& c) { task_group_context_impl::init(c); }
void destroy(d1::task_group_context&) {}
void reset(d1::task_group_context& c) { task_group_context_impl::canc(c) = 0; }
bool cancel_group_execution(d1::task_group_context& c) {
  return task_group_context_impl::canc(c).exchange(1) == 0;
}
bool is_group_execution_cancelled(d1::task_group_context& c) {
  return task_group_context_impl::canc(c).load() != 0;
}
void capture_fp_settings(d1::task_group_context&) {}
void* allocate(d1::small_object_pool*& pool, std::size_t n,
               const d1::execution_data&) {
  pool = reinterpret_cast<d1::small_object_pool*>(0x10);
  return ::operator new(n, std::align_val_t(64));
}
void* allocate(d1::small_object_pool*& pool, std::size_t n) {
  pool = reinterpret_cast<d1::small_object_pool*>(0x10);
  return ::operator new(n, std::align_val_t(64));
}
void deallocate(d1::small_object_pool&, void* p, std::size_t,
                const d1::execution_data&) {
  ::operator delete(p, std::align_val_t(64));
}
void deallocate(d1::small_object_pool&, void* p, std::size_t) {
  ::operator delete(p, std::align_val_t(64));
}
void* cache_aligned_allocate(std::size_t n) {
  return ::operator new(n ? n : 1, std::align_val_t(128));
}
void cache_aligned_deallocate(void* p) {
  ::operator delete(p, std::align_val_t(128));
}
std::size_t cache_line_size() { return 128; }
void* allocate_memory(std::size_t n) { return malloc(n ? n : 1); }
void deallocate_memory(void* p) { free(p); }
bool is_tbbmalloc_used() { return false; }
void throw_exception(d0::exception_id id) {
  fprintf(stderr, "[sim] tbb throw_exception %d\n", (int)id);
  abort();
}
void notify_waiters(std::uintptr_t) {}
d1::slot_id execution_slot(const d1::execution_data*) {
  return (d1::slot_id)sim::me_or_die("execution_slot")->slot;
}
int max_concurrency(const d1::task_arena_base*) {
  return sim::g_active ? sim::g_cfg.workers : 1;
}
void spawn(d1::task& t, d1::task_group_context& ctx) {
  sim::Thread* me = sim::me_or_die("spawn");
  ts_rel(&t);
  sim::g_st.spawns++;
  me->dq.push_back({&t, &ctx, me->iso, me->slot, me->arena});
  sim::sched_point(me);
}
void spawn(d1::task& t, d1::task_group_context& ctx, d1::slot_id) {
  r1::spawn(t, ctx);
}
void execute_and_wait(d1::task& t, d1::task_group_context& t_ctx,
                      d1::wait_context& w, d1::task_group_context&) {
  sim::Thread* me = sim::me_or_die("execute_and_wait");
  ts_rel(&t);
  sim::run_task(me, {&t, &t_ctx, me->iso, me->slot, me->arena});
  sim::dispatch(me, &w);
}
void wait(d1::wait_context& w, d1::task_group_context&) {
  sim::dispatch(sim::me_or_die("wait"), &w);
}
void isolate_within_arena(d1::delegate_base& d, std::intptr_t iso) {
  sim::Thread* me = sim::me_or_die("isolate");
  const intptr_t saved = me->iso;
  me->iso = iso ? iso : reinterpret_cast<intptr_t>(&d);
  d();
  me->iso = saved;
}
void initialize(d1::task_arena_base&) {}
void terminate(d1::task_arena_base&) {}
bool attach(d1::task_arena_base&) { return false; }
void execute(d1::task_arena_base&, d1::delegate_base& d) { d(); }
d1::task_group_context* current_context() { return nullptr; }
}  // namespace r1
}  // namespace detail
}  // namespace tbb
